//! Independent PDF *writer*: objects in conservative syntax, classic xref tables, xref streams,
//! object streams, incremental sections, optional junk prefix and optional encryption callback.
//! Shares no code with the `pdf` crate.
use std::collections::BTreeMap;

#[derive(Clone, Debug, PartialEq)]
pub enum Obj {
    Null,
    Bool(bool),
    Int(i64),
    Real(f64),
    Str(Vec<u8>),
    Name(Vec<u8>),
    Arr(Vec<Obj>),
    Dict(Vec<(Vec<u8>, Obj)>),
    Ref(u32, u16),
    /// dictionary (without /Length) + raw (already encoded) data
    Stream(Vec<(Vec<u8>, Obj)>, Vec<u8>),
    /// verbatim bytes (for hostile / exotic syntax experiments)
    Raw(Vec<u8>),
}

pub fn name(s: &str) -> Obj { Obj::Name(s.as_bytes().to_vec()) }
pub fn dict(items: Vec<(&str, Obj)>) -> Obj { Obj::Dict(items.into_iter().map(|(k, v)| (k.as_bytes().to_vec(), v)).collect()) }
pub fn arr(items: Vec<Obj>) -> Obj { Obj::Arr(items) }
pub fn ints(v: &[i64]) -> Obj { Obj::Arr(v.iter().map(|&i| Obj::Int(i)).collect()) }
pub fn rf(n: u32) -> Obj { Obj::Ref(n, 0) }
pub fn st(s: &str) -> Obj { Obj::Str(s.as_bytes().to_vec()) }
pub fn stream(items: Vec<(&str, Obj)>, data: &[u8]) -> Obj {
    Obj::Stream(items.into_iter().map(|(k, v)| (k.as_bytes().to_vec(), v)).collect(), data.to_vec())
}

impl Obj {
    pub fn get(&self, key: &str) -> Option<&Obj> {
        match self { Obj::Dict(d) | Obj::Stream(d, _) => d.iter().find(|(k, _)| k == key.as_bytes()).map(|(_, v)| v), _ => None }
    }
    pub fn set(&mut self, key: &str, v: Obj) {
        if let Obj::Dict(d) | Obj::Stream(d, _) = self {
            if let Some(e) = d.iter_mut().find(|(k, _)| k == key.as_bytes()) { e.1 = v; } else { d.push((key.as_bytes().to_vec(), v)); }
        }
    }
    pub fn remove(&mut self, key: &str) {
        if let Obj::Dict(d) | Obj::Stream(d, _) = self { d.retain(|(k, _)| k != key.as_bytes()); }
    }
}

pub fn fmt_real(x: f64) -> String {
    // fixed notation, no exponent, always with a '.', trailing zeros trimmed
    let mut s = format!("{:.6}", x);
    while s.ends_with('0') && !s.ends_with(".0") { s.pop(); }
    s
}

pub fn write_name(n: &[u8], out: &mut Vec<u8>) {
    out.push(b'/');
    for &b in n {
        let regular = b > 0x20 && b < 0x7f && !b"()<>[]{}/%#".contains(&b);
        if regular { out.push(b); } else { out.extend_from_slice(format!("#{:02X}", b).as_bytes()); }
    }
}
pub fn write_string(s: &[u8], out: &mut Vec<u8>) {
    // hex for anything non-printable (unambiguous), literal with escapes otherwise
    if s.iter().any(|&b| b < 0x20 || b >= 0x7f) {
        out.push(b'<');
        for &b in s { out.extend_from_slice(format!("{:02X}", b).as_bytes()); }
        out.push(b'>');
    } else {
        out.push(b'(');
        for &b in s { if b"()\\".contains(&b) { out.push(b'\\'); } out.push(b); }
        out.push(b')');
    }
}

pub type Crypt<'a> = Option<&'a dyn Fn(u32, u16, &[u8], bool) -> Vec<u8>>; // (nr, gen, data, is_stream)

pub struct Ctx<'a> { pub nr: u32, pub gen: u16, pub crypt: Crypt<'a> }

pub fn write_obj(o: &Obj, out: &mut Vec<u8>, cx: &Ctx) {
    match o {
        Obj::Null => out.extend_from_slice(b"null"),
        Obj::Bool(b) => out.extend_from_slice(if *b { b"true" } else { b"false" }),
        Obj::Int(i) => out.extend_from_slice(i.to_string().as_bytes()),
        Obj::Real(x) => out.extend_from_slice(fmt_real(*x).as_bytes()),
        Obj::Str(s) => match cx.crypt { Some(f) => write_string(&f(cx.nr, cx.gen, s, false), out), None => write_string(s, out) },
        Obj::Name(n) => write_name(n, out),
        Obj::Arr(a) => {
            out.push(b'[');
            for (i, e) in a.iter().enumerate() { if i > 0 { out.push(b' '); } write_obj(e, out, cx); }
            out.push(b']');
        }
        Obj::Dict(d) => write_dict(d, None, out, cx),
        Obj::Ref(n, g) => out.extend_from_slice(format!("{} {} R", n, g).as_bytes()),
        Obj::Stream(d, data) => {
            let data = match cx.crypt { Some(f) => f(cx.nr, cx.gen, data, true), None => data.clone() };
            let explicit_len = d.iter().any(|(k, _)| k == b"Length");
            write_dict(d, if explicit_len { None } else { Some(data.len()) }, out, cx);
            out.extend_from_slice(b"\nstream\n");
            out.extend_from_slice(&data);
            out.extend_from_slice(b"\nendstream");
        }
        Obj::Raw(b) => out.extend_from_slice(b),
    }
}
fn write_dict(d: &[(Vec<u8>, Obj)], len: Option<usize>, out: &mut Vec<u8>, cx: &Ctx) {
    out.extend_from_slice(b"<<");
    for (k, v) in d { out.push(b' '); write_name(k, out); out.push(b' '); write_obj(v, out, cx); }
    if let Some(l) = len { out.extend_from_slice(format!(" /Length {}", l).as_bytes()); }
    out.extend_from_slice(b" >>");
}
pub fn obj_bytes(o: &Obj) -> Vec<u8> { let mut v = Vec::new(); write_obj(o, &mut v, &Ctx { nr: 0, gen: 0, crypt: None }); v }

#[derive(Clone, Copy, Debug, PartialEq)]
pub enum XEntry { Free { next: u32, gen: u16 }, InUse { off: usize, gen: u16 }, Compressed { stm: u32, idx: u32 } }

/// Low-level file writer; all recorded offsets are relative to the header.
pub struct W<'a> {
    pub buf: Vec<u8>,
    pub base: usize,
    pub crypt: Crypt<'a>,
    /// entries defined since the last xref section was written
    pub pending: BTreeMap<u32, XEntry>,
    pub last_xref: Option<usize>,
    /// cross-reference streams: write /W [0 n m] (no type field; every entry then is of the default type 1) whenever all
    /// entries of the section are ordinary in-use entries
    pub omit_type_field: bool,
    /// cross-reference streams: leave /Index out when the section lists every number 0 .. /Size-1 (the default is [0 Size])
    pub omit_index_when_default: bool,
    /// cross-reference streams: 8-byte second and third fields (any width up to 8 is legal)
    pub wide_fields: bool,
}

impl<'a> W<'a> {
    pub fn new(prefix: &[u8], version: &str) -> W<'a> {
        let mut buf = prefix.to_vec();
        let base = buf.len();
        buf.extend_from_slice(format!("%PDF-{}\n%\u{e2}\u{e3}\u{cf}\u{d3}\n", version).as_bytes().iter().map(|&b| b).collect::<Vec<u8>>().as_slice());
        W { buf, base, crypt: None, pending: BTreeMap::new(), last_xref: None, omit_type_field: false, omit_index_when_default: false, wide_fields: false }
    }
    pub fn pos(&self) -> usize { self.buf.len() - self.base }
    pub fn obj(&mut self, nr: u32, gen: u16, o: &Obj) {
        let off = self.pos();
        self.pending.insert(nr, XEntry::InUse { off, gen });
        self.buf.extend_from_slice(format!("{} {} obj\n", nr, gen).as_bytes());
        let cx = Ctx { nr, gen, crypt: self.crypt };
        write_obj(o, &mut self.buf, &cx);
        self.buf.extend_from_slice(b"\nendobj\n");
    }
    /// like obj() but never encrypted (xref streams, and /Encrypt dictionary strings)
    pub fn obj_plain(&mut self, nr: u32, gen: u16, o: &Obj) {
        let c = self.crypt.take();
        self.obj(nr, gen, o);
        self.crypt = c;
    }
    pub fn free(&mut self, nr: u32, next: u32, gen: u16) { self.pending.insert(nr, XEntry::Free { next, gen }); }
    /// Object stream `nr` holding `members`; `encode` turns the plain body into (filter entries, data).
    pub fn objstm(&mut self, nr: u32, members: &[(u32, Obj)], sep: &[u8], pad_first: usize,
                  encode: &dyn Fn(&[u8]) -> (Vec<(Vec<u8>, Obj)>, Vec<u8>)) {
        let mut body = Vec::new();
        let mut offs = Vec::new();
        for (i, (n, o)) in members.iter().enumerate() {
            offs.push((*n, body.len()));
            let cx = Ctx { nr: *n, gen: 0, crypt: None }; // members are not individually encrypted
            write_obj(o, &mut body, &cx);
            if i + 1 < members.len() { body.extend_from_slice(if sep.is_empty() { b" " } else { sep }); } else { body.extend_from_slice(sep); }
        }
        let mut head = Vec::new();
        for (n, o) in &offs { head.extend_from_slice(format!("{} {} ", n, o).as_bytes()); }
        for _ in 0..pad_first { head.push(b'\n'); }
        let first = head.len();
        let mut plain = head;
        plain.extend_from_slice(&body);
        let (mut extra, data) = encode(&plain);
        let mut d: Vec<(Vec<u8>, Obj)> = vec![
            (b"Type".to_vec(), name("ObjStm")), (b"N".to_vec(), Obj::Int(members.len() as i64)), (b"First".to_vec(), Obj::Int(first as i64))];
        d.append(&mut extra);
        self.obj(nr, 0, &Obj::Stream(d, data));
        for (i, (n, _)) in members.iter().enumerate() { self.pending.insert(*n, XEntry::Compressed { stm: nr, idx: i as u32 }); }
    }
    fn take_pending(&mut self) -> BTreeMap<u32, XEntry> { std::mem::take(&mut self.pending) }

    /// Classic table for the pending entries. `split` forces additional subsection breaks before these object numbers.
    pub fn xref_table(&mut self, mut trailer: Vec<(Vec<u8>, Obj)>, size: u32, split: &[u32]) -> usize {
        let entries = self.take_pending();
        let pos = self.pos();
        self.buf.extend_from_slice(b"xref\n");
        let keys: Vec<u32> = entries.keys().cloned().collect();
        let mut i = 0;
        while i < keys.len() {
            let mut j = i + 1;
            while j < keys.len() && keys[j] == keys[j - 1] + 1 && !split.contains(&keys[j]) { j += 1; }
            self.buf.extend_from_slice(format!("{} {}\n", keys[i], j - i).as_bytes());
            for k in &keys[i..j] {
                match entries[k] {
                    XEntry::Free { next, gen } => self.buf.extend_from_slice(format!("{:010} {:05} f \n", next, gen).as_bytes()),
                    XEntry::InUse { off, gen } => self.buf.extend_from_slice(format!("{:010} {:05} n \n", off, gen).as_bytes()),
                    XEntry::Compressed { .. } => panic!("mkpdf: compressed entry in classic table"),
                }
            }
            i = j;
        }
        trailer.push((b"Size".to_vec(), Obj::Int(size as i64)));
        if let Some(p) = self.last_xref { trailer.push((b"Prev".to_vec(), Obj::Int(p as i64))); }
        self.buf.extend_from_slice(b"trailer\n");
        write_obj(&Obj::Dict(trailer), &mut self.buf, &Ctx { nr: 0, gen: 0, crypt: None });
        self.buf.extend_from_slice(format!("\nstartxref\n{}\n%%EOF\n", pos).as_bytes());
        self.last_xref = Some(pos);
        pos
    }
    /// Cross-reference stream object `nr` for the pending entries (+ itself).
    pub fn xref_stream(&mut self, nr: u32, mut trailer: Vec<(Vec<u8>, Obj)>, size: u32, split: &[u32],
                       encode: &dyn Fn(&[u8]) -> (Vec<(Vec<u8>, Obj)>, Vec<u8>)) -> usize {
        let pos = self.pos();
        self.pending.insert(nr, XEntry::InUse { off: pos, gen: 0 });
        let entries = self.take_pending();
        let keys: Vec<u32> = entries.keys().cloned().collect();
        let maxf2 = entries.values().map(|e| match e { XEntry::Free { next, .. } => *next as u64, XEntry::InUse { off, .. } => *off as u64, XEntry::Compressed { stm, .. } => *stm as u64 }).max().unwrap_or(0);
        let maxf3 = entries.values().map(|e| match e { XEntry::Free { gen, .. } | XEntry::InUse { gen, .. } => *gen as u64, XEntry::Compressed { idx, .. } => *idx as u64 }).max().unwrap_or(0);
        let w2 = if self.wide_fields { 8 } else { ((64 - maxf2.leading_zeros() as usize + 7) / 8).max(1) };
        let w3 = if self.wide_fields { 8 } else { ((64 - maxf3.leading_zeros() as usize + 7) / 8).max(1) };
        let no_type = self.omit_type_field && entries.values().all(|e| matches!(e, XEntry::InUse { .. }));
        let mut data = Vec::new();
        let mut index = Vec::new();
        let mut i = 0;
        while i < keys.len() {
            let mut j = i + 1;
            while j < keys.len() && keys[j] == keys[j - 1] + 1 && !split.contains(&keys[j]) { j += 1; }
            index.push(Obj::Int(keys[i] as i64)); index.push(Obj::Int((j - i) as i64));
            for k in &keys[i..j] {
                let (t, a, b) = match entries[k] {
                    XEntry::Free { next, gen } => (0u8, next as u64, gen as u64),
                    XEntry::InUse { off, gen } => (1, off as u64, gen as u64),
                    XEntry::Compressed { stm, idx } => (2, stm as u64, idx as u64),
                };
                if !no_type { data.push(t); }
                data.extend_from_slice(&a.to_be_bytes()[8 - w2..]);
                data.extend_from_slice(&b.to_be_bytes()[8 - w3..]);
            }
            i = j;
        }
        let (mut extra, enc) = encode(&data);
        let mut d: Vec<(Vec<u8>, Obj)> = vec![(b"Type".to_vec(), name("XRef")), (b"Size".to_vec(), Obj::Int(size as i64)),
            (b"W".to_vec(), ints(&[if no_type { 0 } else { 1 }, w2 as i64, w3 as i64]))];
        let is_default = keys.len() as u32 == size && keys.first() == Some(&0) && keys.last() == Some(&(size - 1)) && index.len() == 2;
        if !(self.omit_index_when_default && is_default) { d.push((b"Index".to_vec(), Obj::Arr(index))); }
        if let Some(p) = self.last_xref { d.push((b"Prev".to_vec(), Obj::Int(p as i64))); }
        d.append(&mut trailer);
        d.append(&mut extra);
        self.buf.extend_from_slice(format!("{} 0 obj\n", nr).as_bytes());
        write_obj(&Obj::Stream(d, enc), &mut self.buf, &Ctx { nr, gen: 0, crypt: None });
        self.buf.extend_from_slice(format!("\nendobj\nstartxref\n{}\n%%EOF\n", pos).as_bytes());
        self.last_xref = Some(pos);
        pos
    }
}

pub fn no_filter(d: &[u8]) -> (Vec<(Vec<u8>, Obj)>, Vec<u8>) { (vec![], d.to_vec()) }
pub fn flate_filter(d: &[u8]) -> (Vec<(Vec<u8>, Obj)>, Vec<u8>) {
    (vec![(b"Filter".to_vec(), name("FlateDecode"))], miniz_oxide::deflate::compress_to_vec_zlib(d, 6))
}

/// Minimal one-section document: objects 1..n given, catalog = object 1, classic table.
pub fn simple_doc(objs: &[(u32, Obj)], root: u32, extra_trailer: Vec<(&str, Obj)>) -> Vec<u8> {
    let mut w = W::new(b"", "1.7");
    w.free(0, 0, 65535);
    let mut max = 0;
    for (n, o) in objs { w.obj(*n, 0, o); max = max.max(*n); }
    // fill gaps with free entries so the table is one subsection
    let defined: Vec<u32> = w.pending.keys().cloned().collect();
    for n in 1..max { if !defined.contains(&n) { w.free(n, 0, 0); } }
    let mut tr: Vec<(Vec<u8>, Obj)> = vec![(b"Root".to_vec(), rf(root))];
    for (k, v) in extra_trailer { tr.push((k.as_bytes().to_vec(), v)); }
    w.xref_table(tr, max + 1, &[]);
    w.buf
}

/// catalog + page tree with `n` empty pages starting at object 3; returns objects (1=catalog, 2=pages)
pub fn skeleton(n_pages: u32) -> Vec<(u32, Obj)> {
    let mut v = vec![
        (1, dict(vec![("Type", name("Catalog")), ("Pages", rf(2))])),
        (2, dict(vec![("Type", name("Pages")), ("Count", Obj::Int(n_pages as i64)),
            ("Kids", Obj::Arr((0..n_pages).map(|i| rf(3 + i)).collect()))])),
    ];
    for i in 0..n_pages {
        v.push((3 + i, dict(vec![("Type", name("Page")), ("Parent", rf(2)), ("MediaBox", ints(&[0, 0, 612, 792]))])));
    }
    v
}
