//! Sanitizer lanes: build the same harness with a sanitizer into its own target directory and hand the
//! worker binary to the supervisor. A lane that cannot be built is reported as inconclusive for that lane only.
use crate::run::Run;
use serde_json::json;
use std::process::Command;

pub fn harness_dir() -> String { format!("{}/harness", crate::run::verif_root()) }

/// Build (or reuse) the lane binary; returns its path.
pub fn build(run: &Run, lane: &str) -> Option<String> {
    let dir = harness_dir();
    let (flags, extra): (&str, Vec<&str>) = match lane {
        "asan" => ("-Zsanitizer=address -Cforce-frame-pointers=yes", vec![]),
        "tsan" => ("-Zsanitizer=thread -Cforce-frame-pointers=yes", vec!["-Zbuild-std"]),
        _ => return None,
    };
    let target_dir = format!("{}/target-{}", dir, lane);
    let t0 = std::time::Instant::now();
    let mut cmd = Command::new("cargo");
    cmd.current_dir(&dir).arg("+nightly").arg("build").arg("--release").arg("--offline").arg("--target").arg("x86_64-unknown-linux-gnu").arg("--target-dir").arg(&target_dir).arg("--bin").arg("pdfmon");
    for e in &extra { cmd.arg(e); }
    cmd.env("RUSTFLAGS", flags).env("CARGO_NET_OFFLINE", "true");
    let out = cmd.output();
    let exe = format!("{}/x86_64-unknown-linux-gnu/release/pdfmon", target_dir);
    match out {
        Ok(o) if o.status.success() && std::path::Path::new(&exe).exists() => {
            run.lane(json!({"lane": lane, "built": true, "build_s": t0.elapsed().as_secs_f64()}));
            Some(exe)
        }
        Ok(o) => { let err = String::from_utf8_lossy(&o.stderr); run.lane(json!({"lane": lane, "built": false, "error": err.lines().rev().take(8).collect::<Vec<_>>()})); println!("note: {} lane could not be built (inconclusive for that lane)", lane); None }
        Err(e) => { run.lane(json!({"lane": lane, "built": false, "error": e.to_string()})); None }
    }
}

/// AddressSanitizer lane for the properties that run in-process: the property's own quick workload (same generators, same
/// oracles) is executed once more by the ASan build of the harness, in a scratch root so that evidence and replay files of
/// the real run are not touched. An ASan report is a violation of `run.prop` (memory error while the property's workload ran:
/// whatever the call returned cannot be trusted); oracle verdicts of the inner run are ignored here (the outer run judges them).
pub fn asan_rerun(run: &Run) {
    let Some(exe) = build(run, "asan") else { return };
    let root = format!("{}/target-asan/rerun-root-{}", harness_dir(), run.prop);
    let _ = std::fs::remove_dir_all(&root);
    let _ = std::fs::create_dir_all(format!("{}/harness/target", root));
    let _ = std::fs::copy(format!("{}/KNOWN_FINDINGS.txt", crate::run::verif_root()), format!("{}/KNOWN_FINDINGS.txt", root));
    let t0 = std::time::Instant::now();
    let mut cmd = Command::new(&exe);
    cmd.arg(&run.prop[..]).arg("quick").env("VERIF_ROOT", &root).env("VERIF_SEED", run.seed.to_string()).env("VERIF_BUDGET_SCALE", "0.5");
    for (k, v) in env_for("asan", &exe) { cmd.env(k, v); }
    match cmd.output() {
        Err(e) => { run.lane(json!({"lane": "asan-rerun", "ran": false, "error": e.to_string()})); }
        Ok(o) => {
            let stdout = String::from_utf8_lossy(&o.stdout).to_string();
            let stderr = String::from_utf8_lossy(&o.stderr).to_string();
            let summary = stdout.lines().rev().find(|l| l.starts_with(&run.prop[..])).unwrap_or("").to_string();
            if let Some(pos) = stderr.find("ERROR: AddressSanitizer") {
                let rep: Vec<&str> = stderr[pos..].lines().take(60).collect();
                let kind = rep[0].split("AddressSanitizer: ").nth(1).and_then(|s| s.split_whitespace().next()).unwrap_or("report").to_string();
                let frame = rep.iter().find(|l| l.contains("pdf/src/")).or_else(|| rep.iter().find(|l| l.contains("/registry/"))).map(|l| l.trim().to_string()).unwrap_or_default();
                let where_ = frame.rsplit(' ').next().unwrap_or("").rsplit("/").take(3).collect::<Vec<_>>().into_iter().rev().collect::<Vec<_>>().join("/");
                let sig = format!("{}|asan|{}|{}", run.prop, kind, crate::panicmon::template(&where_));
                run.violation(&sig, &format!("AddressSanitizer report while the quick workload ran under the ASan build: {} ; {}", rep[0], frame), json!({"report_head": rep}));
            } else if summary.is_empty() {
                run.lane(json!({"lane": "asan-rerun", "ran": false, "exit": o.status.code(), "stderr_tail": stderr.lines().rev().take(6).collect::<Vec<_>>()}));
                println!("note: asan-rerun lane did not complete (inconclusive for that lane)");
                return;
            }
            run.lane(json!({"lane": "asan-rerun", "ran": true, "inner_summary": summary, "wall_s": t0.elapsed().as_secs_f64()}));
            run.add("asan_rerun_completed", 1);
        }
    }
    let _ = std::fs::remove_dir_all(&root);
}

pub fn env_for(lane: &str, exe: &str) -> Vec<(String, String)> {
    let mut v = vec![("VERIF_WORKER_EXE".to_string(), exe.to_string())];
    // the resource clause is decided by the native run; an instrumented build is several times slower, and its lane looks for
    // memory errors and races, so its CPU allowance is scaled accordingly
    if lane == "asan" || lane == "tsan" { v.push(("VERIF_CPU_FACTOR".into(), "10".into())); }
    match lane {
        "asan" => v.push(("ASAN_OPTIONS".into(), "detect_leaks=0:halt_on_error=1:abort_on_error=1:detect_stack_use_after_return=1:allocator_may_return_null=1:symbolize=1".into())),
        "tsan" => v.push(("TSAN_OPTIONS".into(), "halt_on_error=1:abort_on_error=1:second_deadlock_stack=1".into())),
        _ => {}
    }
    v
}

/// Miri lane: run the tiny workload `part` under the interpreter. An interpreter error (out-of-bounds, use after
/// free, invalid value, uninitialised read, data race, aliasing violation in `/repo` code) is a violation of
/// `run.prop`; an unavailable toolchain is inconclusive for the lane.
///
/// One class of report is *not* a verdict: a violation of the (experimental) Stacked Borrows aliasing model whose
/// faulting frame lies in a third-party dependency outside `/repo` (observed: `istring::SmallBytes::from(&[u8])`
/// keeps a raw pointer across a move of the `Box` it came from). None of the properties speaks about the aliasing
/// discipline inside dependencies, and the interpreter stops at the first report, which would hide everything behind
/// it. Such a report is recorded in `coverage.lanes` and the same workload is re-run under Tree Borrows, which then
/// decides the lane.
pub fn miri(run: &Run, part: &str, seeds: &[u64], many_seeds: Option<u32>) {
    let dir = harness_dir();
    let exec = |extra: &str, seed: u64| {
        let mut flags = "-Zmiri-disable-isolation".to_string();
        if let Some(n) = many_seeds { flags.push_str(&format!(" -Zmiri-many-seeds=0..{}", n)); }
        if !extra.is_empty() { flags.push(' '); flags.push_str(extra); }
        Command::new("cargo").current_dir(&dir).args(["+nightly", "miri", "run", "--offline", "--bin", "miri_small", "--", part, &seed.to_string()])
            .env("MIRIFLAGS", &flags).env("CARGO_NET_OFFLINE", "true").output()
    };
    for &seed in seeds {
        let t0 = std::time::Instant::now();
        let mut model = "stacked-borrows";
        let mut out = exec("", seed);
        if let Ok(o) = &out {
            let stderr = String::from_utf8_lossy(&o.stderr).to_string();
            if let Some((l, loc)) = miri_error(&stderr) {
                if l.contains("trying to retag") || l.contains("borrow stack") || stderr.contains("Stacked Borrows rules it violated are still experimental") {
                    if !loc.contains("/repo/") {
                        run.lane(json!({"lane": "miri", "part": part, "seed": seed, "model": "stacked-borrows", "aliasing_report_in_dependency": l, "at": loc,
                            "treated_as": "not a verdict (aliasing model of a third-party crate); re-run under tree borrows"}));
                        println!("note: miri: Stacked Borrows report inside a dependency ({}), re-running part {} under Tree Borrows", loc, part);
                        run.add("miri_stacked_borrows_reports_in_dependencies", 1);
                        model = "tree-borrows";
                        out = exec("-Zmiri-tree-borrows", seed);
                    }
                }
            }
        }
        match out {
            Err(e) => { run.lane(json!({"lane": "miri", "part": part, "ran": false, "error": e.to_string()})); return; }
            Ok(o) => {
                let stdout = String::from_utf8_lossy(&o.stdout).to_string();
                let stderr = String::from_utf8_lossy(&o.stderr).to_string();
                let oks = stdout.lines().filter(|l| l.starts_with("MIRI-OK")).count();
                if let Some((l, loc)) = miri_error(&stderr) {
                    if model == "tree-borrows" && !loc.contains("/repo/") && (l.contains("Tree Borrows") || stderr.contains("Tree Borrows rules it violated are still experimental")) {
                        run.lane(json!({"lane": "miri", "part": part, "seed": seed, "model": model, "ran": false, "aliasing_report_in_dependency": l, "at": loc}));
                        println!("note: miri lane for part {} stopped at an aliasing report inside a dependency under both models (inconclusive for that lane)", part);
                        return;
                    }
                    let first_repo_frame = stderr.lines().find(|x| x.contains("/repo/pdf/src") || x.contains("pdf/src/")).unwrap_or("").trim().to_string();
                    let sig = format!("{}|miri|{}|{}", run.prop, part, crate::panicmon::template(&l));
                    run.violation(&sig, &format!("{} ; at {} ; {}", l, loc, first_repo_frame), json!({"part": part, "seed": seed, "model": model, "stderr_tail": stderr.lines().rev().take(40).collect::<Vec<_>>()}));
                } else if !o.status.success() || oks == 0 {
                    run.lane(json!({"lane": "miri", "part": part, "seed": seed, "ran": false, "error": stderr.lines().rev().take(6).collect::<Vec<_>>()}));
                    println!("note: miri lane did not complete for part {} (inconclusive for that lane)", part);
                    return;
                }
                run.lane(json!({"lane": "miri", "part": part, "seed": seed, "model": model, "ran": true, "ok_lines": oks, "wall_s": t0.elapsed().as_secs_f64()}));
                run.add(&format!("miri_{}_runs", part), oks as u64);
            }
        }
    }
}

/// First interpreter error in Miri's stderr: (message line, source location of the faulting frame).
fn miri_error(stderr: &str) -> Option<(String, String)> {
    let lines: Vec<&str> = stderr.lines().collect();
    let i = lines.iter().position(|l| l.starts_with("error: Undefined Behavior") || l.contains("Data race detected"))?;
    let loc = lines[i..].iter().take(6).find(|l| l.trim_start().starts_with("-->")).map(|l| l.trim_start().trim_start_matches("-->").trim().to_string()).unwrap_or_default();
    Some((lines[i].to_string(), loc))
}

/// libFuzzer lane for C01/C14: coverage-guided exploration of load + walker (built with ASan by cargo-fuzz).
/// Returns the directory with artifacts (crash-*, timeout-*, oom-*) to be re-judged by the supervisor's workers.
pub fn fuzz(run: &Run, secs: u64, seeds: &[(String, Vec<u8>)]) -> Option<String> {
    let dir = harness_dir();
    let corpus = format!("{}/fuzz/corpus/walk", dir);
    let artifacts = format!("{}/fuzz/artifacts/walk", dir);
    let _ = std::fs::remove_dir_all(&artifacts);
    let _ = std::fs::create_dir_all(&corpus);
    let _ = std::fs::create_dir_all(&artifacts);
    for (name, bytes) in seeds { let _ = std::fs::write(format!("{}/seed-{:016x}-{}", corpus, crate::rng::fnv(bytes), name.replace('/', "_").chars().take(40).collect::<String>()), bytes); }
    let dict = format!("{}/fuzz/pdf.dict", dir);
    let _ = std::fs::write(&dict, ["obj", "endobj", "stream", "endstream", "xref", "trailer", "startxref", "/Type", "/Pages", "/Kids", "/Count", "/Parent", "/Length", "/Filter", "/FlateDecode", "/DecodeParms", "/Predictor", "/Columns",
        "/Root", "/Size", "/Prev", "/W", "/Index", "/ObjStm", "/XRef", "/N", "/First", "/Font", "/Widths", "/ToUnicode", "/Encrypt", "/Resources", "/XObject", "/Contents", "BI", "ID", "EI", "BT", "ET", "Tj", "0 R", "<<", ">>", "%%EOF"]
        .iter().map(|t| format!("\"{}\"\n", t)).collect::<String>());
    let t0 = std::time::Instant::now();
    let out = Command::new("cargo").current_dir(&dir).args(["+nightly", "fuzz", "run", "walk", "--"])
        .args([&format!("-max_total_time={}", secs), "-fork=16", "-timeout=10", "-rss_limit_mb=4096", "-len_control=0", "-max_len=300000", "-ignore_crashes=1", "-ignore_timeouts=1", "-ignore_ooms=1", &format!("-dict={}", dict), &format!("-artifact_prefix={}/", artifacts)])
        .env("CARGO_NET_OFFLINE", "true").output();
    match out {
        Err(e) => { run.lane(json!({"lane": "libfuzzer", "ran": false, "error": e.to_string()})); None }
        Ok(o) => {
            let stderr = String::from_utf8_lossy(&o.stderr).to_string();
            let n_art = std::fs::read_dir(&artifacts).map(|d| d.count()).unwrap_or(0);
            let n_corpus = std::fs::read_dir(&corpus).map(|d| d.count()).unwrap_or(0);
            let execs = stderr.lines().rev().find_map(|l| l.strip_prefix("#").and_then(|r| r.split(':').next()).and_then(|n| n.trim().parse::<u64>().ok())).unwrap_or(0);
            let ran = stderr.contains("INFO:") || execs > 0;
            run.lane(json!({"lane": "libfuzzer", "ran": ran, "seconds": t0.elapsed().as_secs(), "last_reported_execs": execs, "corpus_files": n_corpus, "artifacts": n_art,
                "tail": if ran { vec![] } else { stderr.lines().rev().take(8).map(|s| s.to_string()).collect::<Vec<_>>() }}));
            if !ran { println!("note: libfuzzer lane did not run (inconclusive for that lane)"); return None; }
            run.add("libfuzzer_execs_reported", execs); run.add("libfuzzer_corpus_files", n_corpus as u64); run.add("libfuzzer_artifacts", n_art as u64);
            Some(artifacts)
        }
    }
}
