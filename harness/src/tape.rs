//! Choice tape: every generator decision is a draw from `Src`; the recorded tape
//! replays the case exactly and is what the shrinker minimises. Draw value 0 is
//! always the "plainest" alternative so that shrinking towards zeros removes
//! exotic features; labelled alternatives name the exotic feature taken.
use crate::rng::Rng;

pub struct Src {
    pub tape: Vec<u32>,
    pos: usize,
    rng: Option<Rng>,
    pub labels: Vec<&'static str>,
}

impl Src {
    pub fn fresh(rng: Rng) -> Src { Src { tape: Vec::new(), pos: 0, rng: Some(rng), labels: Vec::new() } }
    pub fn replay(tape: &[u32]) -> Src { Src { tape: tape.to_vec(), pos: 0, rng: None, labels: Vec::new() } }
    pub fn used(&self) -> usize { self.pos }

    /// value in 0..n (n>=1)
    pub fn draw(&mut self, n: u32) -> u32 {
        let n = n.max(1);
        let v = if self.pos < self.tape.len() {
            self.tape[self.pos] % n
        } else if let Some(r) = self.rng.as_mut() {
            let v = r.below(n as u64) as u32;
            self.tape.push(v);
            v
        } else {
            0
        };
        self.pos += 1;
        v
    }
    /// true with probability num/den; false is the plain choice
    pub fn chance(&mut self, num: u32, den: u32) -> bool { self.draw(den) >= den - num }
    /// biased: plain choice (index 0) with weight w0 out of (w0 + others)
    pub fn pick_w(&mut self, w0: u32, n_other: u32) -> u32 {
        if n_other == 0 { return 0; }
        let v = self.draw(w0 + n_other);
        if v < w0 { 0 } else { v - w0 + 1 }
    }
    pub fn range(&mut self, lo: i64, hi: i64) -> i64 { lo + self.draw((hi - lo + 1) as u32) as i64 }
    pub fn pick<'a, T>(&mut self, xs: &'a [T]) -> &'a T { &xs[self.draw(xs.len() as u32) as usize] }
    /// labelled alternatives: opts[0] is plain; taking i>0 records opts[i]
    pub fn alt(&mut self, w0: u32, opts: &[&'static str]) -> usize {
        let i = self.pick_w(w0, opts.len() as u32 - 1) as usize;
        if i > 0 { self.labels.push(opts[i]); }
        i
    }
    pub fn label(&mut self, l: &'static str) { self.labels.push(l); }
    pub fn byte(&mut self) -> u8 { self.draw(256) as u8 }
    pub fn bytes(&mut self, max: usize) -> Vec<u8> {
        let n = self.draw(max as u32 + 1) as usize;
        (0..n).map(|_| self.byte()).collect()
    }
    pub fn u32full(&mut self) -> u32 { let a = self.draw(65536); let b = self.draw(65536); (b << 16) | a }
    pub fn label_set(&self) -> String {
        let mut l: Vec<&str> = self.labels.clone();
        l.sort(); l.dedup();
        l.join("+")
    }
}

/// Minimise a failing tape. `fails` re-runs generator+oracle on the real code and
/// says whether the case still fails in the same way.
pub fn shrink(tape: &[u32], mut fails: impl FnMut(&[u32]) -> bool, budget: usize) -> Vec<u32> {
    let mut cur = tape.to_vec();
    let mut calls = 0usize;
    let mut try_it = |cand: &[u32], calls: &mut usize| -> bool {
        if *calls >= budget { return false; }
        *calls += 1;
        fails(cand)
    };
    // first: shortest failing prefix (binary search; entries beyond the tape read as 0 = plainest)
    {
        let (mut lo, mut hi) = (0usize, cur.len());
        while lo < hi {
            let mid = (lo + hi) / 2;
            if try_it(&cur[..mid], &mut calls) { hi = mid; } else { lo = mid + 1; }
        }
        if hi < cur.len() && try_it(&cur[..hi], &mut calls) { cur.truncate(hi); }
    }
    loop {
        let mut improved = false;
        // delete chunks, large ones first (a tape with a long value has tens of thousands of entries)
        let mut k = (cur.len() / 2).max(1);
        loop {
            let mut i = 0;
            while i + k <= cur.len() {
                if calls >= budget { break; }
                let mut cand = cur.clone();
                cand.drain(i..i + k);
                if try_it(&cand, &mut calls) { cur = cand; improved = true; } else { i += k; }
            }
            if k == 1 || calls >= budget { break; }
            k = if k > 16 { k / 2 } else { k - 1 }.max(1);
            if k < 16 && ![8usize, 4, 2, 1].contains(&k) { k = [8usize, 4, 2, 1].iter().cloned().find(|x| *x < k).unwrap_or(1); }
        }
        // zero entries
        for i in 0..cur.len() {
            if calls >= budget { break; }
            if cur[i] != 0 {
                let mut cand = cur.clone();
                cand[i] = 0;
                if try_it(&cand, &mut calls) { cur = cand; improved = true; continue; }
                if cur[i] > 1 {
                    let mut cand = cur.clone();
                    cand[i] = 1;
                    if try_it(&cand, &mut calls) { cur = cand; improved = true; continue; }
                    let mut cand = cur.clone();
                    cand[i] = cur[i] / 2;
                    if try_it(&cand, &mut calls) { cur = cand; improved = true; }
                }
            }
        }
        while cur.last() == Some(&0) { cur.pop(); }
        if !improved || calls >= budget { break; }
    }
    cur
}
