//! Controlled scheduler for C13: real OS threads, but only the thread holding the token runs; every
//! thread parks at the resolver's yield points (cfg hooks in StorageResolver::get) and the controller
//! decides who continues. Stateless depth-first enumeration of schedules with preemption bounding.
use std::collections::HashMap;
use std::sync::{Condvar, Mutex};
use std::time::Duration;

#[derive(Clone, Copy, Debug, PartialEq)]
pub enum Status { NotStarted, Running, AtYield { site: u32, id: u64 }, Finished }

pub struct State {
    pub active: bool,
    pub status: Vec<Status>,
    pub token: Option<usize>,
    /// key -> thread currently inside the cache's compute closure for that key (cached configurations only)
    pub computing: HashMap<u64, usize>,
    pub cached: bool,
    pub trace: Vec<(usize, u32, u64)>,
}
pub struct Ctl { pub m: Mutex<State>, pub cv: Condvar }

pub static CTL: once_cell::sync::Lazy<Ctl> = once_cell::sync::Lazy::new(|| Ctl {
    m: Mutex::new(State { active: false, status: Vec::new(), token: None, computing: HashMap::new(), cached: false, trace: Vec::new() }), cv: Condvar::new() });

thread_local! { pub static TID: std::cell::Cell<Option<usize>> = std::cell::Cell::new(None); }

/// installed once via pdf::verif::set_yield
thread_local! { pub static STRESS: std::cell::Cell<u64> = std::cell::Cell::new(0); }
pub fn yield_cb(site: u32, id: u64) {
    // free-running stress: perturb the timing at the resolver's synchronisation points
    let st = STRESS.with(|x| x.get());
    if st != 0 {
        let mut z = st; let r = crate::rng::splitmix(&mut z); STRESS.with(|x| x.set(z | 1));
        match r % 16 { 0 | 1 | 2 => std::thread::yield_now(), 3 => std::thread::sleep(Duration::from_micros(r % 50)), _ => {} }
        return;
    }
    let Some(t) = TID.with(|x| x.get()) else { return };
    park(t, site, id);
}

fn park(t: usize, site: u32, id: u64) {
    let mut g = CTL.m.lock().unwrap_or_else(|e| e.into_inner());
    if !g.active { return; }
    if g.cached {
        if site == pdf::verif::SITE_GET_IN_COMPUTE { g.computing.insert(id, t); }
        if site == pdf::verif::SITE_GET_AFTER_CACHE { if g.computing.get(&id) == Some(&t) { g.computing.remove(&id); } }
    }
    g.status[t] = Status::AtYield { site, id };
    g.trace.push((t, site, id));
    g.token = None;
    CTL.cv.notify_all();
    while g.active && g.token != Some(t) { g = CTL.cv.wait(g).unwrap_or_else(|e| e.into_inner()); }
    if g.active { g.status[t] = Status::Running; }
}

pub fn thread_begin(t: usize) { TID.with(|x| x.set(Some(t))); park(t, 0, 0); }
pub fn thread_end(t: usize) {
    let mut g = CTL.m.lock().unwrap_or_else(|e| e.into_inner());
    if g.active { g.status[t] = Status::Finished; g.token = None; CTL.cv.notify_all(); }
    TID.with(|x| x.set(None));
}

#[derive(Debug, PartialEq)]
pub enum Outcome { Completed, Deadlock { blocked: Vec<(usize, u64, usize)> }, Stalled(usize) }

pub struct Execution { pub outcome: Outcome, pub branching: Vec<usize>, pub choices: Vec<usize>, pub preemptions: usize, pub trace: Vec<(usize, u32, u64)> }

fn blocked_on(g: &State, t: usize) -> Option<(u64, usize)> {
    if !g.cached { return None; }
    if let Status::AtYield { site, id } = g.status[t] {
        // also when the computing thread is this very thread: the compute-once cache would make it wait for its own unfinished
        // computation for ever. Correct code never gets here (the recursion guard, checked before this site, reports the
        // re-entrance as an error), so it is not a state the scheduler may step over
        if site == pdf::verif::SITE_GET_BEFORE_CACHE { if let Some(&o) = g.computing.get(&id) { return Some((id, o)); } }
    }
    None
}

/// Drive one execution. `prefix` fixes the first decisions; later decisions take choice 0 (keep running the same thread).
/// Threads must already be spawned and will call thread_begin(t) first.
/// Call before spawning the threads of an execution.
pub fn begin(n: usize, cached: bool) {
    let mut g = CTL.m.lock().unwrap_or_else(|e| e.into_inner());
    g.active = true; g.status = vec![Status::NotStarted; n]; g.token = None; g.computing.clear(); g.cached = cached; g.trace.clear();
    CTL.cv.notify_all();
}
pub fn drive(n: usize, prefix: &[usize], max_preempt: usize) -> Execution {
    let mut branching = Vec::new();
    let mut choices = Vec::new();
    let mut preemptions = 0;
    let mut last: Option<usize> = None;
    let outcome = loop {
        let mut g = CTL.m.lock().unwrap_or_else(|e| e.into_inner());
        // wait until nobody runs (all parked / finished); a thread that never parks within the limit is "stalled"
        let mut waited = Duration::ZERO;
        let stalled = loop {
            let all_settled = g.token.is_none() && g.status.iter().all(|s| !matches!(s, Status::Running | Status::NotStarted));
            if all_settled { break None; }
            let (ng, to) = CTL.cv.wait_timeout(g, Duration::from_millis(50)).unwrap_or_else(|e| e.into_inner());
            g = ng;
            if to.timed_out() { waited += Duration::from_millis(50); if waited > Duration::from_millis(3000) { break Some(g.status.iter().position(|s| matches!(s, Status::Running | Status::NotStarted)).unwrap_or(0)); } }
        };
        if let Some(t) = stalled { break Outcome::Stalled(t); }
        if g.status.iter().all(|s| *s == Status::Finished) { break Outcome::Completed; }
        // enabled threads, the previously running one first (choice 0 = no preemption)
        let mut enabled: Vec<usize> = (0..n).filter(|&t| matches!(g.status[t], Status::AtYield { .. }) && blocked_on(&g, t).is_none()).collect();
        if enabled.is_empty() {
            let blocked: Vec<(usize, u64, usize)> = (0..n).filter_map(|t| blocked_on(&g, t).map(|(k, o)| (t, k, o))).collect();
            break Outcome::Deadlock { blocked };
        }
        if let Some(l) = last { if let Some(p) = enabled.iter().position(|&t| t == l) { enabled.swap(0, p); enabled[1..].sort(); } }
        let k = choices.len();
        let can_preempt = preemptions < max_preempt || last.map(|l| !enabled.contains(&l)).unwrap_or(true);
        let width = if can_preempt { enabled.len() } else { 1 };
        let c = if k < prefix.len() { prefix[k].min(width - 1) } else { 0 };
        if let Some(l) = last { if enabled[0] == l && c != 0 { preemptions += 1; } }
        branching.push(width);
        choices.push(c);
        let t = enabled[c];
        last = Some(t);
        g.token = Some(t);
        CTL.cv.notify_all();
    };
    let mut g = CTL.m.lock().unwrap_or_else(|e| e.into_inner());
    let trace = g.trace.clone();
    g.active = false; g.token = None;
    CTL.cv.notify_all();
    Execution { outcome, branching, choices, preemptions, trace }
}

/// next schedule prefix in depth-first order, or None when the space (under the preemption bound) is exhausted
pub fn next_prefix(e: &Execution) -> Option<Vec<usize>> {
    let mut k = e.choices.len();
    while k > 0 {
        k -= 1;
        if e.choices[k] + 1 < e.branching[k] {
            let mut p = e.choices[..k].to_vec();
            p.push(e.choices[k] + 1);
            return Some(p);
        }
    }
    None
}
