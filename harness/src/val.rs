//! Abstract PDF values (the oracle side) + generator + comparison with the library's `Primitive`.
use crate::tape::Src;
use pdf::primitive::Primitive;

#[derive(Clone, Debug, PartialEq)]
pub enum V {
    Null,
    Bool(bool),
    Int(i32),
    /// decimal text in canonical form (optional '-', digits, '.', digits); value = text parsed as f32
    Real(String),
    Str(Vec<u8>),
    /// valid UTF-8, no NUL
    Name(String),
    Arr(Vec<V>),
    /// unique keys
    Dict(Vec<(String, V)>),
    Ref(u64, u64),
}

pub fn real_value(text: &str) -> f32 { text.parse::<f32>().unwrap() }

fn ulp_close(a: f32, b: f32) -> bool {
    if a == b { return true; }
    if !a.is_finite() || !b.is_finite() { return false; }
    let (ia, ib) = (a.to_bits() as i32, b.to_bits() as i32);
    let key = |i: i32| if i < 0 { i32::MIN.wrapping_sub(i) } else { i };
    (key(ia) as i64 - key(ib) as i64).abs() <= 1
}

/// strict: integer spelling must give Integer, real spelling must give Number (C03).
/// loose: Integer(n) ≡ Number(x) when numerically equal (C04 and others).
pub fn matches(p: &Primitive, v: &V, strict: bool) -> Result<(), String> {
    match (p, v) {
        (Primitive::Null, V::Null) => Ok(()),
        (Primitive::Boolean(a), V::Bool(b)) if a == b => Ok(()),
        (Primitive::Integer(a), V::Int(b)) if a == b => Ok(()),
        (Primitive::Number(a), V::Real(t)) if (strict && ulp_close(*a, real_value(t))) || *a == real_value(t) => Ok(()),
        (Primitive::Number(a), V::Int(b)) if !strict && *a == *b as f32 => Ok(()),
        (Primitive::Integer(a), V::Real(t)) if !strict && *a as f32 == real_value(t) => Ok(()),
        (Primitive::String(s), V::Str(b)) if s.as_bytes() == &b[..] => Ok(()),
        (Primitive::Name(n), V::Name(m)) if n.as_str() == m => Ok(()),
        (Primitive::Reference(r), V::Ref(n, g)) if r.id == *n && r.gen == *g => Ok(()),
        (Primitive::Array(a), V::Arr(b)) => {
            if a.len() != b.len() { return Err(format!("array length {} != {}", a.len(), b.len())); }
            for (i, (x, y)) in a.iter().zip(b).enumerate() { matches(x, y, strict).map_err(|e| format!("[{}]: {}", i, e))?; }
            Ok(())
        }
        (Primitive::Dictionary(d), V::Dict(e)) => {
            if d.len() != e.len() { return Err(format!("dict size {} != {}", d.len(), e.len())); }
            for (k, y) in e {
                match d.get(k) { None => return Err(format!("key /{} missing", k)), Some(x) => matches(x, y, strict).map_err(|e| format!("/{}: {}", k, e))? }
            }
            Ok(())
        }
        _ => Err(format!("got {} expected {}", brief_p(p), brief_v(v))),
    }
}
pub fn brief_p(p: &Primitive) -> String { let s = format!("{:?}", p); s.chars().take(100).collect() }
pub fn brief_v(v: &V) -> String { let s = format!("{:?}", v); s.chars().take(100).collect() }

pub struct GenOpts { pub depth: u32, pub refs: bool, pub max_str: usize, pub wide_names: bool }
impl Default for GenOpts { fn default() -> Self { GenOpts { depth: 3, refs: true, max_str: 12, wide_names: false } } }

pub fn gen_int(s: &mut Src) -> i32 {
    match s.draw(6) {
        0 => s.draw(10) as i32,
        1 => -(s.draw(1000) as i32),
        2 => *s.pick(&[0, 1, -1, i32::MAX, i32::MIN, i32::MAX - 1, i32::MIN + 1, 65535, 65536, 16777216, 16777217, -16777217, 255, 256]),
        3 => s.u32full() as i32,
        _ => s.draw(100000) as i32,
    }
}
/// canonical decimal text with ≤ 7 significant digits, always containing '.' with digits on both sides
pub fn gen_real_text(s: &mut Src) -> String {
    let neg = s.draw(3) == 0;
    let int_digits = s.draw(6) as usize; // 0..5 integer digits
    let frac_digits = (1 + s.draw(6) as usize).min(7usize.saturating_sub(int_digits).max(1));
    let mut t = String::new();
    if neg { t.push('-'); }
    if int_digits == 0 { t.push('0'); } else {
        t.push((b'1' + s.draw(9) as u8) as char);
        for _ in 1..int_digits { t.push((b'0' + s.draw(10) as u8) as char); }
    }
    t.push('.');
    for _ in 0..frac_digits { t.push((b'0' + s.draw(10) as u8) as char); }
    t
}
pub fn gen_name(s: &mut Src, wide: bool) -> String {
    let mut n = match s.draw(5) { 0 => 0, 1 => 1, _ => 1 + s.draw(10) as usize };
    // now and then a name far beyond the lengths found in ordinary files (126/127/128 bytes and a few hundred)
    if s.draw(40) == 0 { s.label("long_name"); n = match s.draw(4) { 0 => 126 + s.draw(4) as usize, 1 => 254 + s.draw(4) as usize, _ => 100 + s.draw(500) as usize }; }
    let mut out = String::new();
    for _ in 0..n {
        let c = match s.draw(if wide { 10 } else { 8 }) {
            0..=4 => (b'A' + s.draw(26) as u8) as char,
            5 => *s.pick(&['#', ' ', '(', ')', '<', '>', '[', ']', '{', '}', '/', '%', '\t', '\n', '\r', '\x0c', '\x7f', '\x01', '+', '-', '.', '0', '9', '\\', '~', '!']),
            6 => (0x21 + s.draw(0x5e) as u8) as char,
            7 => char::from_u32(0x80 + s.draw(0x780)).unwrap_or('é'),
            8 => char::from_u32(0x800 + s.draw(0xd000 - 0x800)).unwrap_or('中'),
            _ => char::from_u32(0x10000 + s.draw(0x100000)).unwrap_or('😀'),
        };
        out.push(c);
    }
    out
}
pub fn gen_value(s: &mut Src, o: &GenOpts, depth: u32) -> V {
    let kinds = if depth >= o.depth { 7 } else { 9 };
    match s.draw(kinds) {
        0 => V::Int(gen_int(s)),
        1 => V::Real(gen_real_text(s)),
        2 => match s.draw(24) {
            0 => { s.label("long_string"); let n = match s.draw(4) { 0 => 254 + s.draw(4) as usize, 1 => 65534 + s.draw(4) as usize, _ => 100 + s.draw(5000) as usize }; let kind = s.draw(3); V::Str((0..n).map(|i| match kind { 0 => s.byte(), 1 => b"()\\\r\n ab"[i % 8], _ => 0x20 + s.draw(0x5f) as u8 }).collect()) }
            // balanced parentheses, nested a little or very deeply, with text between them
            1 | 2 => {
                s.label("nested_parens");
                let d = if s.draw(5) == 0 { s.label("deeply_nested_parens"); *s.pick(&[126usize, 127, 128, 129, 254, 255, 256, 257, 300, 1000, 5000, 32767, 32768, 65535, 65536, 70000]) } else { 1 + s.draw(6) as usize };
                let mut v = Vec::new();
                for i in 0..d { v.push(b'('); if i % 97 == 3 || d < 8 { if s.draw(2) == 0 { v.extend_from_slice(b"()"); } if s.draw(2) == 0 { let b = s.byte(); if b != b'(' && b != b')' { v.push(b); } } } }
                v.extend_from_slice(b"x");
                for i in 0..d { v.push(b')'); if i % 89 == 5 || d < 8 { if s.draw(2) == 0 { let b = s.byte(); if b != b'(' && b != b')' { v.push(b); } } } }
                V::Str(v)
            }
            _ => V::Str(s.bytes(o.max_str)),
        },
        3 => V::Name(gen_name(s, o.wide_names)),
        4 => V::Bool(s.draw(2) == 1),
        5 => V::Null,
        6 => if o.refs { V::Ref(s.draw(100000) as u64, if s.draw(4) == 0 { s.draw(65536) as u64 } else { 0 }) } else { V::Int(gen_int(s)) },
        // long containers hold leaves only (their size is the point, and the total stays bounded)
        7 => if s.draw(24) == 0 { s.label("long_array"); let n = 60 + s.draw(600) as usize; V::Arr((0..n).map(|_| gen_value(s, o, o.depth)).collect()) } else { let n = s.draw(5) as usize; V::Arr((0..n).map(|_| gen_value(s, o, depth + 1)).collect()) }
        _ => {
            let long = s.draw(24) == 0;
            if long { s.label("long_dict"); }
            let n = if long { 40 + s.draw(200) as usize } else { s.draw(5) as usize };
            let depth = if long { o.depth.max(1) - 1 } else { depth };
            let mut items: Vec<(String, V)> = Vec::new();
            for _ in 0..n {
                let k = gen_name(s, o.wide_names);
                if items.iter().any(|(kk, _)| *kk == k) { continue; }
                let v = gen_value(s, o, depth + 1);
                items.push((k, v));
            }
            V::Dict(items)
        }
    }
}

/// V -> library Primitive (for the serializer side, C04)
pub fn to_primitive(v: &V) -> Primitive {
    match v {
        V::Null => Primitive::Null,
        V::Bool(b) => Primitive::Boolean(*b),
        V::Int(i) => Primitive::Integer(*i),
        V::Real(t) => Primitive::Number(real_value(t)),
        V::Str(b) => Primitive::String(pdf::primitive::PdfString::new(b.as_slice().into())),
        V::Name(n) => Primitive::Name(n.as_str().into()),
        V::Arr(a) => Primitive::Array(a.iter().map(to_primitive).collect()),
        V::Dict(d) => { let mut dict = pdf::primitive::Dictionary::new(); for (k, x) in d { dict.insert(k.as_str(), to_primitive(x)); } Primitive::Dictionary(dict) }
        V::Ref(n, g) => Primitive::Reference(pdf::object::PlainRef { id: *n, gen: *g }),
    }
}
