//! One check run: counters, evidence, violations, known-findings matching, exit code.
use serde_json::{json, Map, Value};
use std::collections::{BTreeMap, HashSet};
use std::sync::Mutex;
use std::time::Instant;

#[derive(Clone, Copy, PartialEq, Eq, Debug)]
pub enum Tier { Quick, Thorough }

pub fn verif_root() -> String {
    std::env::var("VERIF_ROOT").unwrap_or_else(|_| format!("{}/..", env!("CARGO_MANIFEST_DIR")))
}

pub struct Viol { pub what: String, pub witness: Value, pub count: u64 }

#[derive(Default)]
struct Inner {
    evaluations: u64,
    distinct: HashSet<u64>,
    samples: Vec<Value>,
    counters: BTreeMap<String, u64>,
    viol: BTreeMap<String, Viol>,
    inconclusive: Vec<String>,
    rule: String,
    assumptions: Vec<String>,
    exhaustive: BTreeMap<String, bool>,
    extra: Map<String, Value>,
    lanes: Vec<Value>,
}

pub struct Run {
    pub prop: String,
    pub tier: Tier,
    pub seed: u64,
    pub budget_scale: f64,
    start: Instant,
    inner: Mutex<Inner>,
}

pub struct KnownFinding { pub sig: String, pub what: String }

pub fn load_known(prop: &str) -> Vec<KnownFinding> {
    let path = format!("{}/KNOWN_FINDINGS.txt", verif_root());
    let mut out = Vec::new();
    if let Ok(s) = std::fs::read_to_string(&path) {
        for l in s.lines() {
            let l = l.trim();
            if !l.starts_with("open:") { continue; }
            // open: property=C09 sig=<sig> :: <what>
            let rest = l[5..].trim();
            let Some(rest) = rest.strip_prefix(&format!("property={} ", prop)) else { continue };
            let Some(rest) = rest.strip_prefix("sig=") else { continue };
            let (sig, what) = match rest.find(" :: ") { Some(i) => (&rest[..i], &rest[i + 4..]), None => (rest, "") };
            out.push(KnownFinding { sig: sig.trim().to_string(), what: what.trim().to_string() });
        }
    }
    out
}

impl Run {
    pub fn new(prop: &str, tier: Tier, seed: u64) -> Run {
        let budget_scale = std::env::var("VERIF_BUDGET_SCALE").ok().and_then(|s| s.parse().ok()).unwrap_or(1.0);
        Run { prop: prop.to_string(), tier, seed, budget_scale, start: Instant::now(), inner: Mutex::new(Inner::default()) }
    }
    pub fn quick(&self) -> bool { self.tier == Tier::Quick }
    /// pick a size by tier (scaled by VERIF_BUDGET_SCALE)
    pub fn n(&self, quick: u64, thorough: u64) -> u64 {
        let b = if self.quick() { quick } else { thorough };
        ((b as f64) * self.budget_scale).max(1.0) as u64
    }
    pub fn elapsed(&self) -> f64 { self.start.elapsed().as_secs_f64() }
    pub fn rule(&self, r: &str) { self.inner.lock().unwrap().rule = r.to_string(); }
    pub fn assume(&self, a: &str) { self.inner.lock().unwrap().assumptions.push(a.to_string()); }
    pub fn eval(&self) { self.inner.lock().unwrap().evaluations += 1; }
    pub fn evals(&self, n: u64) { self.inner.lock().unwrap().evaluations += n; }
    /// record a distinct non-trivial case by its content hash
    pub fn nontrivial(&self, h: u64) { self.inner.lock().unwrap().distinct.insert(h); }
    pub fn count(&self, key: &str) { self.add(key, 1); }
    /// `label:<l>` counters for all labels of one case, under one lock (a case with long values carries thousands of labels)
    pub fn count_labels(&self, labels: &[&'static str]) {
        let mut local: std::collections::BTreeMap<&'static str, u64> = std::collections::BTreeMap::new();
        for l in labels { *local.entry(l).or_insert(0) += 1; }
        let mut g = self.inner.lock().unwrap();
        for (l, n) in local { *g.counters.entry(format!("label:{}", l)).or_insert(0) += n; }
    }
    pub fn counter(&self, key: &str) -> u64 { self.inner.lock().unwrap().counters.get(key).copied().unwrap_or(0) }
    pub fn add(&self, key: &str, n: u64) { *self.inner.lock().unwrap().counters.entry(key.to_string()).or_insert(0) += n; }
    pub fn sample(&self, v: Value) {
        let mut g = self.inner.lock().unwrap();
        if g.samples.len() < 12 { g.samples.push(v); }
    }
    pub fn sample_cap(&self, cap: usize, v: impl FnOnce() -> Value) {
        let mut g = self.inner.lock().unwrap();
        if g.samples.len() < cap { g.samples.push(v()); }
    }
    pub fn exhaustive(&self, domain: &str, complete: bool) { self.inner.lock().unwrap().exhaustive.insert(domain.to_string(), complete); }
    pub fn extra(&self, key: &str, v: Value) { self.inner.lock().unwrap().extra.insert(key.to_string(), v); }
    pub fn lane(&self, v: Value) { self.inner.lock().unwrap().lanes.push(v); }
    pub fn inconclusive(&self, why: String) {
        let mut g = self.inner.lock().unwrap();
        if g.inconclusive.len() < 50 { g.inconclusive.push(why); }
        *g.counters.entry("inconclusive".into()).or_insert(0) += 1;
    }
    pub fn violation(&self, sig: &str, what: &str, witness: Value) {
        let mut g = self.inner.lock().unwrap();
        match g.viol.get_mut(sig) {
            Some(v) => v.count += 1,
            None => { g.viol.insert(sig.to_string(), Viol { what: what.to_string(), witness, count: 1 }); }
        }
    }
    pub fn has_violation(&self, sig: &str) -> bool { self.inner.lock().unwrap().viol.contains_key(sig) }
    pub fn violation_count(&self) -> usize { self.inner.lock().unwrap().viol.len() }

    /// Write evidence, print KNOWN-FINDING / VIOLATION lines, return exit code.
    pub fn finish(self) -> i32 {
        let wall = self.start.elapsed().as_secs_f64();
        let root = verif_root();
        let g = self.inner.into_inner().unwrap();
        let known = load_known(&self.prop);
        let mut known_hit: Vec<Value> = Vec::new();
        let mut new_viol: Vec<(String, &Viol)> = Vec::new();
        for (sig, v) in g.viol.iter() {
            if let Some(k) = known.iter().find(|k| &k.sig == sig) {
                known_hit.push(json!({"sig": sig, "count": v.count, "what": k.what}));
            } else {
                new_viol.push((sig.clone(), v));
            }
        }
        for k in &known {
            if g.viol.contains_key(&k.sig) {
                println!("KNOWN-FINDING: property={} sig={} :: {}", self.prop, k.sig, k.what);
            } else {
                println!("note: property={} known finding sig={} was not reproduced in this run", self.prop, k.sig);
            }
        }
        let mut exit = 0;
        let replay_dir = format!("{}/replay/{}", root, self.prop);
        for (sig, v) in &new_viol {
            let _ = std::fs::create_dir_all(&replay_dir);
            let h = crate::rng::fnv(sig.as_bytes());
            let path = format!("{}/{:016x}.json", replay_dir, h);
            let body = json!({"property": self.prop, "signature": sig, "what": v.what, "count": v.count,
                "seed": self.seed, "tier": format!("{:?}", self.tier), "witness": v.witness});
            let _ = std::fs::write(&path, serde_json::to_string_pretty(&body).unwrap());
            println!("VIOLATION property={} replay={}", self.prop, path);
            println!("  signature: {}", sig);
            println!("  what: {}  (x{})", v.what, v.count);
            exit = 1;
        }
        let distinct = g.distinct.len() as u64;
        let mut cov = Map::new();
        cov.insert("evaluations".into(), json!(g.evaluations));
        cov.insert("distinct_nontrivial".into(), json!(distinct));
        cov.insert("rule".into(), json!(g.rule));
        cov.insert("samples".into(), Value::Array(g.samples.clone()));
        if !g.exhaustive.is_empty() {
            cov.insert("exhaustive".into(), json!(g.exhaustive.values().all(|b| *b)));
            cov.insert("exhaustive_subdomains".into(), json!(g.exhaustive));
        }
        cov.insert("counters".into(), json!(g.counters));
        cov.insert("known_findings_hit".into(), Value::Array(known_hit));
        cov.insert("inconclusive".into(), json!(g.inconclusive));
        if !g.lanes.is_empty() { cov.insert("lanes".into(), Value::Array(g.lanes.clone())); }
        for (k, v) in g.extra.iter() { cov.insert(k.clone(), v.clone()); }
        let ev = json!({
            "property_id": self.prop,
            "tier": if self.tier == Tier::Quick { "quick" } else { "thorough" },
            "seed": self.seed,
            "level": "exploration",
            "coverage": Value::Object(cov),
            "assumptions": g.assumptions,
            "wall_s": wall,
            "violations": new_viol.len(),
        });
        let _ = std::fs::create_dir_all(format!("{}/evidence", root));
        let path = format!("{}/evidence/{}.json", root, self.prop);
        std::fs::write(&path, serde_json::to_string_pretty(&ev).unwrap()).expect("write evidence");
        let n_inc = g.counters.get("inconclusive").copied().unwrap_or(0);
        println!("{} {:?} seed={} evaluations={} distinct_nontrivial={} violations={} known_hit={} inconclusive={} wall={:.1}s",
            self.prop, self.tier, self.seed, g.evaluations, distinct, new_viol.len(), g.viol.len() - new_viol.len(), n_inc, wall);
        if exit == 0 {
            if g.evaluations == 0 || distinct < 2 {
                println!("INCONCLUSIVE property={} nothing observed (evaluations={}, distinct={})", self.prop, g.evaluations, distinct);
                return 3;
            }
            if n_inc * 20 > g.evaluations {
                println!("INCONCLUSIVE property={} {} of {} cases inconclusive", self.prop, n_inc, g.evaluations);
                return 3;
            }
        }
        exit
    }
}

pub fn hex(b: &[u8]) -> String { b.iter().map(|x| format!("{:02x}", x)).collect() }
pub fn unhex(s: &str) -> Vec<u8> {
    (0..s.len() / 2).map(|i| u8::from_str_radix(&s[2 * i..2 * i + 2], 16).unwrap_or(0)).collect()
}
/// printable rendering of bytes for samples/witnesses
pub fn show(b: &[u8]) -> String {
    let mut s = String::new();
    for &c in b.iter().take(400) {
        match c {
            b'\\' => s.push_str("\\\\"),
            0x20..=0x7e => s.push(c as char),
            b'\n' => s.push_str("\\n"),
            b'\r' => s.push_str("\\r"),
            b'\t' => s.push_str("\\t"),
            _ => s.push_str(&format!("\\x{:02x}", c)),
        }
    }
    if b.len() > 400 { s.push_str(&format!("…(+{} bytes)", b.len() - 400)); }
    s
}
