//! Worker-side resource monitors: counting allocator, per-case CPU budget, abort attribution.
//! All verdicts are on logical quantities (bytes allocated, thread CPU time), never wall-clock.
use std::alloc::{GlobalAlloc, Layout, System};
use std::sync::atomic::{AtomicI64, AtomicU64, AtomicUsize, Ordering};

pub struct CountingAlloc;
static LIVE: AtomicUsize = AtomicUsize::new(0);
static PEAK: AtomicUsize = AtomicUsize::new(0);
static HARD: AtomicUsize = AtomicUsize::new(usize::MAX);
pub static CASE_IDX: AtomicU64 = AtomicU64::new(u64::MAX);
static CASE_INPUT: AtomicU64 = AtomicU64::new(0);
static CASE_CPU_START: AtomicI64 = AtomicI64::new(-1);
static CASE_DECODED_START: AtomicU64 = AtomicU64::new(0);
static MAIN_CLOCK: AtomicI64 = AtomicI64::new(0);
static CLOCK_OK: std::sync::atomic::AtomicBool = std::sync::atomic::AtomicBool::new(false);
static MAIN_TID: AtomicI64 = AtomicI64::new(0);
static BLOCK_DETECT: std::sync::atomic::AtomicBool = std::sync::atomic::AtomicBool::new(false);
/// Workers whose cases run on the worker's main thread alone (C01, C14, C20) turn this on: a case thread that sleeps in the kernel
/// for 10 s without using any CPU, in a process with no other thread that could wake it, waits for itself.
pub fn enable_block_detect() { BLOCK_DETECT.store(true, Ordering::Relaxed); }
/// scheduler state letter of the worker's main thread (`R` running, `S` sleeping, ...), from /proc
fn main_thread_state() -> u8 {
    let tid = MAIN_TID.load(Ordering::Relaxed);
    let s = std::fs::read(format!("/proc/self/task/{}/stat", tid)).unwrap_or_default();
    match s.iter().rposition(|&b| b == b')') { Some(i) if i + 2 < s.len() => s[i + 2], _ => b'?' }
}

unsafe impl GlobalAlloc for CountingAlloc {
    unsafe fn alloc(&self, l: Layout) -> *mut u8 {
        let live = LIVE.fetch_add(l.size(), Ordering::Relaxed) + l.size();
        if live > PEAK.load(Ordering::Relaxed) { PEAK.store(live, Ordering::Relaxed); }
        if live > HARD.load(Ordering::Relaxed) { hard_exceeded(live); }
        System.alloc(l)
    }
    unsafe fn dealloc(&self, p: *mut u8, l: Layout) { LIVE.fetch_sub(l.size(), Ordering::Relaxed); System.dealloc(p, l) }
    unsafe fn alloc_zeroed(&self, l: Layout) -> *mut u8 {
        let live = LIVE.fetch_add(l.size(), Ordering::Relaxed) + l.size();
        if live > PEAK.load(Ordering::Relaxed) { PEAK.store(live, Ordering::Relaxed); }
        if live > HARD.load(Ordering::Relaxed) { hard_exceeded(live); }
        System.alloc_zeroed(l)
    }
    unsafe fn realloc(&self, p: *mut u8, l: Layout, new: usize) -> *mut u8 {
        if new > l.size() {
            let live = LIVE.fetch_add(new - l.size(), Ordering::Relaxed) + (new - l.size());
            if live > PEAK.load(Ordering::Relaxed) { PEAK.store(live, Ordering::Relaxed); }
            if live > HARD.load(Ordering::Relaxed) { hard_exceeded(live); }
        } else { LIVE.fetch_sub(l.size() - new, Ordering::Relaxed); }
        System.realloc(p, l, new)
    }
}

fn decoded_now() -> u64 { pdf::verif::DECODED_BYTES.load(Ordering::Relaxed) }
pub fn decoded_in_case() -> u64 { decoded_now().saturating_sub(CASE_DECODED_START.load(Ordering::Relaxed)) }

/// allowance for a case: 64 MiB + 64 x (input + bytes produced by stream filters so far)
pub fn alloc_allowance(input: u64, decoded: u64) -> u64 { (64u64 << 20) + 64 * (input + decoded) }
/// CPU allowance in ns: 5 s + 20 µs per (input + decoded) byte
pub fn cpu_allowance_ns(input: u64, decoded: u64) -> i64 { (5_000_000_000 + 20_000 * (input + decoded) as i64).saturating_mul(cpu_factor()) }
/// 1 in native runs; the sanitizer lanes set VERIF_CPU_FACTOR for their (several times slower) worker binaries
fn cpu_factor() -> i64 {
    static F: AtomicI64 = AtomicI64::new(0);
    let f = F.load(Ordering::Relaxed);
    if f > 0 { return f; }
    let f = std::env::var("VERIF_CPU_FACTOR").ok().and_then(|s| s.parse::<i64>().ok()).filter(|f| *f >= 1).unwrap_or(1);
    F.store(f, Ordering::Relaxed);
    f
}

/// a bare protocol line written straight to the descriptor (no allocation, no lock)
fn raw_line_plain(kind: &str) {
    let mut buf = [0u8; 16];
    let mut n = 0;
    buf[n] = b'\n'; n += 1;
    for &b in kind.as_bytes().iter().take(12) { buf[n] = b; n += 1; }
    buf[n] = b'\n'; n += 1;
    unsafe { libc::write(1, buf.as_ptr() as *const libc::c_void, n); }
}
fn raw_line(kind: &str, extra: u64) {
    // async-signal-safe-ish: format into a stack buffer without allocating
    let mut buf = [0u8; 160];
    let mut n = 0;
    let mut put = |s: &[u8], n: &mut usize| { for &b in s { if *n < 159 { buf[*n] = b; *n += 1; } } };
    fn num(mut v: u64, out: &mut [u8; 24]) -> usize { let mut i = 24; if v == 0 { i -= 1; out[i] = b'0'; } while v > 0 { i -= 1; out[i] = b'0' + (v % 10) as u8; v /= 10; } i }
    put(b"\nX ", &mut n);
    let mut t = [0u8; 24]; let i = num(CASE_IDX.load(Ordering::Relaxed), &mut t); put(&t[i..], &mut n);
    put(b" ", &mut n); put(kind.as_bytes(), &mut n);
    put(b" entry=", &mut n); let mut t = [0u8; 24]; let i = num(crate::walk::ENTRY.load(Ordering::Relaxed) as u64, &mut t); put(&t[i..], &mut n);
    put(b" extra=", &mut n); let mut t = [0u8; 24]; let i = num(extra, &mut t); put(&t[i..], &mut n);
    put(b" decoded=", &mut n); let mut t = [0u8; 24]; let i = num(decoded_in_case(), &mut t); put(&t[i..], &mut n);
    put(b"\n", &mut n);
    unsafe { libc::write(1, buf.as_ptr() as *const libc::c_void, n); }
}

#[cold]
fn hard_exceeded(live: usize) -> ! {
    HARD.store(usize::MAX, Ordering::Relaxed);
    raw_line("alloc-hard", live as u64);
    unsafe { libc::_exit(97) }
}

extern "C" fn on_abort(_sig: libc::c_int) {
    raw_line("abort", 0);
    unsafe { libc::_exit(99) }
}

fn thread_cpu_ns(clock: libc::clockid_t) -> i64 {
    let mut ts = libc::timespec { tv_sec: 0, tv_nsec: 0 };
    unsafe { libc::clock_gettime(clock, &mut ts); }
    ts.tv_sec as i64 * 1_000_000_000 + ts.tv_nsec as i64
}

/// Call once from the worker's main thread.
pub fn install_worker_monitors() {
    unsafe {
        let mut clock: libc::clockid_t = 0;
        libc::pthread_getcpuclockid(libc::pthread_self(), &mut clock);
        MAIN_CLOCK.store(clock as i64, Ordering::Relaxed);
        MAIN_TID.store(libc::syscall(libc::SYS_gettid) as i64, Ordering::Relaxed);
        CLOCK_OK.store(true, Ordering::Relaxed);
        let mut sa: libc::sigaction = std::mem::zeroed();
        sa.sa_sigaction = on_abort as usize;
        sa.sa_flags = libc::SA_ONSTACK;
        libc::sigaction(libc::SIGABRT, &sa, std::ptr::null_mut());
    }
    std::thread::Builder::new().name("cpu-monitor".into()).spawn(|| { let (mut last_beat, mut beat_at_cpu) = (std::time::Instant::now(), 0i64); let (mut idle_case, mut idle_cpu, mut idle_since, mut idle_checked) = (u64::MAX, -1i64, std::time::Instant::now(), std::time::Instant::now()); loop {
        std::thread::sleep(std::time::Duration::from_millis(25));
        let start = CASE_CPU_START.load(Ordering::Relaxed);
        if start < 0 { idle_case = u64::MAX; continue; }
        if BLOCK_DETECT.load(Ordering::Relaxed) && idle_checked.elapsed().as_millis() >= 500 {
            // "blocked": the same case, asleep in the kernel at every look (twice a second) and not one more microsecond of CPU,
            // for 10 s. Nothing in the library sleeps or waits for anything outside the process, and no other thread of this
            // process touches library state, so a sleeping case thread can only be waiting for something it holds itself.
            idle_checked = std::time::Instant::now();
            let (case, cpu) = (CASE_IDX.load(Ordering::Relaxed), thread_cpu_ns(MAIN_CLOCK.load(Ordering::Relaxed) as libc::clockid_t));
            if case != idle_case || cpu != idle_cpu || main_thread_state() != b'S' { idle_case = case; idle_cpu = cpu; idle_since = std::time::Instant::now(); }
            else if idle_since.elapsed().as_secs() >= 10 {
                CASE_CPU_START.store(-1, Ordering::Relaxed);
                raw_line("blocked", idle_since.elapsed().as_secs());
                unsafe { libc::_exit(96) }
            }
        }
        let clock = MAIN_CLOCK.load(Ordering::Relaxed) as libc::clockid_t;
        let used = thread_cpu_ns(clock) - start;
        // a case that is computing (its CPU time advances) tells the supervisor so every few seconds: the wall-clock watchdog is
        // for cases that make no progress at all; how much computing is too much is decided by the CPU budget below, also on a
        // loaded machine where CPU seconds arrive slowly
        if last_beat.elapsed().as_secs() >= 5 { if used - beat_at_cpu >= 500_000_000 || used < beat_at_cpu { raw_line_plain("H"); } beat_at_cpu = used; last_beat = std::time::Instant::now(); }
        let allow = cpu_allowance_ns(CASE_INPUT.load(Ordering::Relaxed), decoded_in_case());
        if used > allow {
            CASE_CPU_START.store(-1, Ordering::Relaxed);
            raw_line("cpu-budget", (used / 1_000_000) as u64);
            unsafe { libc::_exit(98) }
        }
    } }).expect("spawn monitor");
}

pub struct CaseUsage { pub cpu_ns: i64, pub peak_over_base: u64, pub decoded: u64, pub alloc_over: bool }

pub fn begin_case(idx: u64, input_len: u64) -> usize {
    CASE_IDX.store(idx, Ordering::Relaxed);
    CASE_INPUT.store(input_len, Ordering::Relaxed);
    CASE_DECODED_START.store(decoded_now(), Ordering::Relaxed);
    let base = LIVE.load(Ordering::Relaxed);
    PEAK.store(base, Ordering::Relaxed);
    // hard stop (runaway allocation): 6 GiB above the base; the proportional budget is evaluated at end_case
    HARD.store(base + (6usize << 30), Ordering::Relaxed);
    let clock = MAIN_CLOCK.load(Ordering::Relaxed);
    if CLOCK_OK.load(Ordering::Relaxed) { CASE_CPU_START.store(thread_cpu_ns(clock as libc::clockid_t).max(0), Ordering::Relaxed); }
    base
}
pub fn end_case(base: usize, input_len: u64) -> CaseUsage {
    let clock = MAIN_CLOCK.load(Ordering::Relaxed);
    let start = CASE_CPU_START.swap(-1, Ordering::Relaxed);
    let cpu_ns = if CLOCK_OK.load(Ordering::Relaxed) && start >= 0 { thread_cpu_ns(clock as libc::clockid_t) - start } else { 0 };
    HARD.store(usize::MAX, Ordering::Relaxed);
    let peak = PEAK.load(Ordering::Relaxed).saturating_sub(base) as u64;
    let decoded = decoded_in_case();
    CASE_IDX.store(u64::MAX, Ordering::Relaxed);
    CaseUsage { cpu_ns, peak_over_base: peak, decoded, alloc_over: peak > alloc_allowance(input_len, decoded) }
}
