use pdfmon::run::{Run, Tier};

#[global_allocator]
static ALLOC: pdfmon::mon::CountingAlloc = pdfmon::mon::CountingAlloc;

fn main() {
    let args: Vec<String> = std::env::args().collect();
    if args.len() < 3 {
        eprintln!("usage: pdfmon <Cxx> <quick|thorough>");
        std::process::exit(2);
    }
    if args[1] == "--worker" {
        // pdfmon --worker <Cxx> <tier> <seed>
        let tier = if args[3] == "quick" { Tier::Quick } else { Tier::Thorough };
        let seed: u64 = args[4].parse().unwrap_or(1);
        pdfmon::panicmon::install();
        match args[2].as_str() {
            "C01" => pdfmon::sup::worker_loop(pdfmon::props::c01::worker(tier, seed)),
            "C14" => pdfmon::sup::worker_loop(pdfmon::props::c14::worker(tier, seed)),
            "C20" => pdfmon::sup::worker_loop(pdfmon::props::c20::worker(tier, seed)),
            "C13" => pdfmon::sup::worker_loop(pdfmon::props::c13::worker(tier, seed)),
            _ => std::process::exit(2),
        }
        return;
    }
    let prop = args[1].as_str();
    let tier = match args[2].as_str() { "quick" => Tier::Quick, "thorough" => Tier::Thorough, _ => { eprintln!("bad tier"); std::process::exit(2) } };
    let seed: u64 = std::env::var("VERIF_SEED").ok().and_then(|s| s.parse().ok()).unwrap_or(1);
    pdfmon::panicmon::install();
    let run = Run::new(prop, tier, seed);
    match prop {
        "C01" => pdfmon::props::c01::run(&run),
        "C02" => pdfmon::props::c02::run(&run),
        "C03" => pdfmon::props::c03::run(&run),
        "C04" => pdfmon::props::c04::run(&run),
        "C05" => pdfmon::props::c05::run(&run),
        "C06" => pdfmon::props::c06::run(&run),
        "C07" => pdfmon::props::c07::run(&run),
        "C08" => pdfmon::props::c08::run(&run),
        "C09" => pdfmon::props::c09::run(&run),
        "C10" => pdfmon::props::c10::run(&run),
        "C11" => pdfmon::props::c11::run(&run),
        "C12" => pdfmon::props::c12::run(&run),
        "C13" => pdfmon::props::c13::run(&run),
        "C14" => pdfmon::props::c14::run(&run),
        "C15" => pdfmon::props::c15::run(&run),
        "C16" => pdfmon::props::c16::run(&run),
        "C17" => pdfmon::props::c17::run(&run),
        "C18" => pdfmon::props::c18::run(&run),
        "C19" => pdfmon::props::c19::run(&run),
        "C20" => pdfmon::props::c20::run(&run),
        _ => { eprintln!("unknown property {}", prop); std::process::exit(2); }
    }
    std::process::exit(run.finish());
}
