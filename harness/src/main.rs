use pdfmon::run::{Run, Tier};

#[global_allocator]
static ALLOC: pdfmon::mon::CountingAlloc = pdfmon::mon::CountingAlloc;

fn main() {
    let args: Vec<String> = std::env::args().collect();
    if args.len() < 3 {
        eprintln!("usage: pdfmon <Cxx> <quick|thorough>");
        std::process::exit(2);
    }
    if args[1] == "--worker" {
        // pdfmon --worker <Cxx> <tier> <seed>
        let tier = if args[3] == "quick" { Tier::Quick } else { Tier::Thorough };
        let seed: u64 = args[4].parse().unwrap_or(1);
        pdfmon::panicmon::install();
        match args[2].as_str() {
            "C01" => { pdfmon::mon::enable_block_detect(); pdfmon::sup::worker_loop(pdfmon::props::c01::worker(tier, seed)) }
            "C14" => { pdfmon::mon::enable_block_detect(); pdfmon::sup::worker_loop(pdfmon::props::c14::worker(tier, seed)) }
            "C20" => { pdfmon::mon::enable_block_detect(); pdfmon::sup::worker_loop(pdfmon::props::c20::worker(tier, seed)) }
            "C13" => pdfmon::sup::worker_loop(pdfmon::props::c13::worker(tier, seed)),
            _ => std::process::exit(2),
        }
        return;
    }
    let prop = args[1].as_str();
    if args[2] == "--replay" {
        std::process::exit(replay(prop, args.get(3).map(|s| s.as_str()).unwrap_or("")));
    }
    let tier = match args[2].as_str() { "quick" => Tier::Quick, "thorough" => Tier::Thorough, _ => { eprintln!("bad tier"); std::process::exit(2) } };
    let seed: u64 = std::env::var("VERIF_SEED").ok().and_then(|s| s.parse().ok()).unwrap_or(1);
    pdfmon::panicmon::install();
    let run = Run::new(prop, tier, seed);
    match prop {
        "C01" => pdfmon::props::c01::run(&run),
        "C02" => pdfmon::props::c02::run(&run),
        "C03" => pdfmon::props::c03::run(&run),
        "C04" => pdfmon::props::c04::run(&run),
        "C05" => pdfmon::props::c05::run(&run),
        "C06" => pdfmon::props::c06::run(&run),
        "C07" => pdfmon::props::c07::run(&run),
        "C08" => pdfmon::props::c08::run(&run),
        "C09" => pdfmon::props::c09::run(&run),
        "C10" => pdfmon::props::c10::run(&run),
        "C11" => pdfmon::props::c11::run(&run),
        "C12" => pdfmon::props::c12::run(&run),
        "C13" => pdfmon::props::c13::run(&run),
        "C14" => pdfmon::props::c14::run(&run),
        "C15" => pdfmon::props::c15::run(&run),
        "C16" => pdfmon::props::c16::run(&run),
        "C17" => pdfmon::props::c17::run(&run),
        "C18" => pdfmon::props::c18::run(&run),
        "C19" => pdfmon::props::c19::run(&run),
        "C20" => pdfmon::props::c20::run(&run),
        _ => { eprintln!("unknown property {}", prop); std::process::exit(2); }
    }
    std::process::exit(run.finish());
}

/// Re-run the witness stored in a replay file as far as it is self-contained: inputs saved as files (C01/C14/C17-style
/// witnesses) are re-walked in all four configurations under the panic monitor; for the others the stored minimal case
/// (choice tape, labels, rendered input, expected/observed) is printed together with the command that regenerates it.
fn replay(prop: &str, path: &str) -> i32 {
    let Ok(text) = std::fs::read_to_string(path) else { eprintln!("cannot read {}", path); return 2 };
    let Ok(v) = serde_json::from_str::<serde_json::Value>(&text) else { eprintln!("not a replay file"); return 2 };
    println!("property : {}", v["property"].as_str().unwrap_or(prop));
    println!("signature: {}", v["signature"].as_str().unwrap_or(""));
    println!("what     : {}", v["what"].as_str().unwrap_or(""));
    println!("seed/tier: {} / {}", v["seed"], v["tier"].as_str().unwrap_or(""));
    println!("witness  : {}", serde_json::to_string_pretty(&v["witness"]).unwrap_or_default());
    let mut input: Option<String> = None;
    fn find(v: &serde_json::Value, out: &mut Option<String>) { match v { serde_json::Value::Object(m) => { for (k, x) in m { if k == "input_file" { if let Some(s) = x.as_str() { *out = Some(s.to_string()); } } find(x, out); } } serde_json::Value::Array(a) => { for x in a { find(x, out); } } _ => {} } }
    find(&v["witness"], &mut input);
    if let Some(f) = input {
        if let Ok(bytes) = std::fs::read(&f) {
            pdfmon::panicmon::install();
            let mut bad = 0;
            for cfg in pdfmon::doc::CFGS {
                let mut w = pdfmon::walk::WalkStats::new();
                let r = pdfmon::panicmon::guard(|| pdfmon::with_file!(bytes.clone(), cfg, b"", |f| match f { Ok(f) => { pdfmon::walk::walk(&f, &mut w, true); "loaded".to_string() } Err(e) => format!("load error: {}", pdfmon::doc::root_kind(&e)) }));
                match r { Ok(s) => println!("[{}] {} ; {} calls, {} panics", cfg.name(), s, w.n_calls, w.panics.len()), Err(p) => { bad += 1; println!("[{}] PANIC {}", cfg.name(), p.describe()); } }
                for (e, p) in &w.panics { bad += 1; println!("    {} panicked: {}", e, p.describe()); }
            }
            println!("(stack overflows / aborts / budget overruns only show in the child-process run: ./check {} quick)", prop);
            return if bad > 0 { 1 } else { 0 };
        }
    }
    // witnesses that carry a choice tape: regenerate the case from the tape and run the oracle on the current tree
    if let Some(tape) = v["witness"]["tape"].as_array() {
        let tape: Vec<u32> = tape.iter().filter_map(|x| x.as_u64()).map(|x| x as u32).collect();
        let prefix = v["signature"].as_str().unwrap_or("").split('|').nth(1).unwrap_or("").to_string();
        let params = v["witness"]["params"].clone();
        pdfmon::panicmon::install();
        let r = match prop {
            "C02" => pdfmon::props::c02::replay(&prefix, &tape, &params),
            "C03" => pdfmon::props::c03::replay(&prefix, &tape, &params),
            "C04" => pdfmon::props::c04::replay(&prefix, &tape, &params),
            "C09" => pdfmon::props::c09::replay(&prefix, &tape, &params),
            "C11" => pdfmon::props::c11::replay(&prefix, &tape, &params),
            _ => None,
        };
        match r {
            Some(Some((class, detail))) => { println!("replay   : the stored case still fails on this tree: {} — {}", class, detail); return 1; }
            Some(None) => { println!("replay   : the stored case passes on this tree"); return 0; }
            None => {}
        }
    }
    println!("to regenerate: VERIF_SEED={} ./check {} {}", v["seed"], prop, v["tier"].as_str().unwrap_or("quick").to_lowercase());
    0
}
