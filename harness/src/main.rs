use pdfmon::run::{Run, Tier};

fn main() {
    let args: Vec<String> = std::env::args().collect();
    if args.len() < 3 {
        eprintln!("usage: pdfmon <Cxx> <quick|thorough>");
        std::process::exit(2);
    }
    let prop = args[1].as_str();
    let tier = match args[2].as_str() { "quick" => Tier::Quick, "thorough" => Tier::Thorough, _ => { eprintln!("bad tier"); std::process::exit(2) } };
    let seed: u64 = std::env::var("VERIF_SEED").ok().and_then(|s| s.parse().ok()).unwrap_or(1);
    pdfmon::panicmon::install();
    let run = Run::new(prop, tier, seed);
    match prop {
        "C16" => pdfmon::props::c16::run(&run),
        _ => { eprintln!("unknown property {}", prop); std::process::exit(2); }
    }
    std::process::exit(run.finish());
}
