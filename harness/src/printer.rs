//! Specification-conformant randomized printer for abstract values (C03, also used by others).
//! Every deviation from the plainest spelling is a labelled choice on the tape.
use crate::tape::Src;
use crate::val::V;

pub struct Printer<'a> {
    pub out: Vec<u8>,
    pub s: &'a mut Src,
    last_regular: bool,
    /// weight of the plain alternative at each choice point (higher = plainer output)
    pub plain_w: u32,
    pub allow_comments: bool,
}

const COMMENT_TEXTS: [&[u8]; 6] = [b"", b" a comment", b"1 0 obj", b"(unbalanced", b"<< /K", b"%% >> ] endobj"];

impl<'a> Printer<'a> {
    pub fn new(s: &'a mut Src) -> Printer<'a> { Printer { out: Vec::new(), s, last_regular: false, plain_w: 6, allow_comments: true } }
    pub fn pos(&self) -> usize { self.out.len() }

    /// separator before a token that starts with a regular character (`regular_start`) or a delimiter
    pub fn sep(&mut self, regular_start: bool) {
        let need = self.last_regular && regular_start;
        let opts: &[&'static str] = if self.allow_comments {
            &["sp", "sep_lf", "sep_cr", "sep_crlf", "sep_tab", "sep_ff", "sep_nul", "sep_run", "comment_lf", "comment_cr", "comment_crlf", "no_sep"]
        } else {
            &["sp", "sep_lf", "sep_cr", "sep_crlf", "sep_tab", "sep_ff", "sep_nul", "sep_run", "no_sep"]
        };
        let mut i = self.s.alt(self.plain_w, opts);
        if opts[i] == "no_sep" && need {
            // not legal here: fall back to the plain separator (label already pushed is removed)
            self.s.labels.pop();
            i = 0;
        }
        match opts[i] {
            "sp" => self.out.push(b' '),
            "sep_lf" => self.out.push(b'\n'),
            "sep_cr" => self.out.push(b'\r'),
            "sep_crlf" => self.out.extend_from_slice(b"\r\n"),
            "sep_tab" => self.out.push(b'\t'),
            "sep_ff" => self.out.push(0x0c),
            "sep_nul" => self.out.push(0),
            "sep_run" => { let n = 2 + self.s.draw(3); for _ in 0..n { let b = *self.s.pick(&[b' ', b'\n', b'\t', b' ']); self.out.push(b); } }
            "comment_lf" | "comment_cr" | "comment_crlf" => {
                if self.s.draw(2) == 0 { self.out.push(b' '); }
                self.out.push(b'%');
                let t = *self.s.pick(&COMMENT_TEXTS);
                self.out.extend_from_slice(t);
                self.out.extend_from_slice(match opts[i] { "comment_lf" => b"\n", "comment_cr" => b"\r", _ => b"\r\n" });
            }
            _ => {}
        }
    }
    /// emit a token; `reg_start`/`reg_end`: does it begin/end with a regular character
    pub fn tok(&mut self, t: &[u8], reg_start: bool, reg_end: bool) -> usize {
        self.sep(reg_start);
        let start = self.out.len();
        self.out.extend_from_slice(t);
        self.last_regular = reg_end;
        start
    }
    /// raw bytes, no separator logic (stream bodies)
    pub fn raw(&mut self, t: &[u8]) { self.out.extend_from_slice(t); self.last_regular = false; }
    pub fn first_token(&mut self) { self.last_regular = false; }
    pub fn after_regular(&mut self) { self.last_regular = true; }

    pub fn int_text(&mut self, i: i32) -> Vec<u8> {
        let mag = (i as i64).abs().to_string();
        let mut t = Vec::new();
        if i < 0 { t.push(b'-'); }
        else if self.s.alt(self.plain_w, &["nosign", "plus_sign"]) == 1 { t.push(b'+'); }
        if self.s.alt(self.plain_w, &["nolz", "leading_zeros"]) == 1 { let n = 1 + self.s.draw(3); for _ in 0..n { t.push(b'0'); } }
        t.extend_from_slice(mag.as_bytes());
        t
    }
    pub fn real_text(&mut self, canon: &str) -> Vec<u8> {
        let neg = canon.starts_with('-');
        let body = canon.trim_start_matches('-');
        let (ip, fp) = body.split_once('.').unwrap();
        let mut t = Vec::new();
        if neg { t.push(b'-'); } else if self.s.alt(self.plain_w, &["nosign", "real_plus_sign"]) == 1 { t.push(b'+'); }
        let frac_zero = fp.bytes().all(|b| b == b'0');
        let form = self.s.alt(self.plain_w, &["full", "real_no_int_part", "real_no_frac_part", "real_leading_zeros", "real_trailing_zeros"]);
        match form {
            1 if ip == "0" => { t.push(b'.'); t.extend_from_slice(fp.as_bytes()); }
            2 if frac_zero => { t.extend_from_slice(ip.as_bytes()); t.push(b'.'); }
            3 => { t.extend_from_slice(b"00"); t.extend_from_slice(ip.as_bytes()); t.push(b'.'); t.extend_from_slice(fp.as_bytes()); }
            4 => { t.extend_from_slice(ip.as_bytes()); t.push(b'.'); t.extend_from_slice(fp.as_bytes()); t.extend_from_slice(b"00"); }
            _ => {
                if form == 1 || form == 2 { self.s.labels.pop(); }
                t.extend_from_slice(ip.as_bytes()); t.push(b'.'); t.extend_from_slice(fp.as_bytes());
            }
        }
        t
    }
    pub fn name_text(&mut self, n: &str) -> Vec<u8> {
        let mut t = vec![b'/'];
        for &b in n.as_bytes() {
            let regular = b > 0x20 && b < 0x7f && !b"()<>[]{}/%#".contains(&b);
            let esc = !regular || self.s.alt(self.plain_w * 2, &["raw", "name_hash_optional"]) == 1;
            if esc {
                let up = self.s.draw(2) == 0;
                t.extend_from_slice(if up { format!("#{:02X}", b) } else { format!("#{:02x}", b) }.as_bytes());
            } else { t.push(b); }
        }
        t
    }
    pub fn literal_text(&mut self, bytes: &[u8]) -> Vec<u8> {
        let mut t = vec![b'('];
        // raw parentheses are allowed when balanced over the whole string
        let balanced = { let mut d = 0i32; let mut ok = true; for &b in bytes { if b == b'(' { d += 1; } if b == b')' { d -= 1; if d < 0 { ok = false; } } } ok && d == 0 };
        let raw_parens = balanced && bytes.iter().any(|&b| b == b'(') && self.s.alt(2, &["escaped_parens", "balanced_raw_parens"]) == 1;
        for (i, &b) in bytes.iter().enumerate() {
            // a short octal escape ends at the first character that is not an octal digit: 8 and 9 may follow it directly
            let next_is_digit = bytes.get(i + 1).map(|c| (b'0'..=b'7').contains(c)).unwrap_or(false);
            if self.s.alt(self.plain_w * 3, &["none", "line_continuation"]) == 1 {
                t.push(b'\\');
                // a CR-only continuation directly before a raw LF would read as one CRLF: use LF there
                let e = *self.s.pick(&[&b"\n"[..], b"\r", b"\r\n"]);
                t.extend_from_slice(if b == b'\n' && e == b"\r" { b"\n" } else { e });
            }
            let octal = |t: &mut Vec<u8>, s: &mut Src| {
                let short_ok = !next_is_digit;
                let o = format!("{:o}", b);
                if short_ok && s.draw(2) == 0 { t.push(b'\\'); t.extend_from_slice(o.as_bytes()); }
                else { t.extend_from_slice(format!("\\{:03o}", b).as_bytes()); }
            };
            match b {
                b'(' | b')' if raw_parens => t.push(b),
                b'(' | b')' | b'\\' => { if self.s.alt(self.plain_w, &["backslash", "octal_escape"]) == 1 { octal(&mut t, self.s); } else { t.push(b'\\'); t.push(b); } }
                b'\n' => {
                    let next_lf = bytes.get(i + 1) == Some(&b'\n');
                    match self.s.alt(2, &["esc_n", "raw_lf", "raw_cr_means_lf", "raw_crlf_means_lf", "octal_escape"]) {
                        0 => t.extend_from_slice(b"\\n"), 1 => t.push(b'\n'),
                        // a raw CR directly before another LF would merge into one CRLF
                        2 => { if next_lf { self.s.labels.pop(); t.extend_from_slice(b"\\n"); } else { t.push(b'\r'); } }
                        3 => t.extend_from_slice(b"\r\n"), _ => octal(&mut t, self.s) }
                }
                b'\r' => { if self.s.alt(2, &["esc_r", "octal_escape"]) == 1 { octal(&mut t, self.s); } else { t.extend_from_slice(b"\\r"); } }
                b'\t' => match self.s.alt(2, &["esc_t", "raw_tab", "octal_escape"]) { 0 => t.extend_from_slice(b"\\t"), 1 => t.push(b), _ => octal(&mut t, self.s) },
                0x08 => { if self.s.alt(2, &["esc_b", "raw_ctrl"]) == 1 { t.push(b); } else { t.extend_from_slice(b"\\b"); } }
                0x0c => { if self.s.alt(2, &["esc_f", "raw_ctrl"]) == 1 { t.push(b); } else { t.extend_from_slice(b"\\f"); } }
                _ => {
                    let printable = (0x20..0x7f).contains(&b);
                    match self.s.alt(self.plain_w * 2, &["raw", "octal_escape", "backslash_ignored"]) {
                        1 => octal(&mut t, self.s),
                        2 if printable && !b"nrtbf()\\01234567".contains(&b) => { t.push(b'\\'); t.push(b); }
                        k => { if k == 2 { self.s.labels.pop(); } if !printable { if b >= 0x80 { self.s.label("raw_high_byte"); } else { self.s.label("raw_ctrl"); } } t.push(b); }
                    }
                }
            }
        }
        t.push(b')');
        t
    }
    pub fn hex_text(&mut self, bytes: &[u8]) -> Vec<u8> {
        let mut t = vec![b'<'];
        let case = self.s.draw(3);
        let ws = self.s.alt(self.plain_w, &["nows", "hexstr_ws"]) == 1;
        let odd = !bytes.is_empty() && bytes[bytes.len() - 1] & 0xf == 0 && self.s.alt(3, &["even", "hexstr_odd_digits"]) == 1;
        for (i, &b) in bytes.iter().enumerate() {
            for (k, nib) in [b >> 4, b & 0xf].into_iter().enumerate() {
                if odd && i == bytes.len() - 1 && k == 1 { continue; }
                if ws && self.s.draw(4) == 0 { t.push(*self.s.pick(&[b' ', b'\n', b'\r', b'\t', 0x0c])); }
                let up = match case { 0 => true, 1 => false, _ => self.s.draw(2) == 0 };
                t.push(if nib < 10 { b'0' + nib } else if up { b'A' + nib - 10 } else { b'a' + nib - 10 });
            }
        }
        if ws && self.s.draw(3) == 0 { t.push(b' '); }
        t.push(b'>');
        t
    }

    /// print a value; returns (start offset of its first byte, end offset)
    pub fn value(&mut self, v: &V) -> (usize, usize) {
        let start;
        match v {
            V::Null => { start = self.tok(b"null", true, true); }
            V::Bool(b) => { start = self.tok(if *b { b"true" } else { b"false" }, true, true); }
            V::Int(i) => { let t = self.int_text(*i); start = self.tok(&t, true, true); }
            V::Real(c) => { let t = self.real_text(c); start = self.tok(&t, true, true); }
            V::Str(b) => {
                let hex = self.s.alt(2, &["literal", "hexstr"]) == 1;
                let t = if hex { self.hex_text(b) } else { self.literal_text(b) };
                start = self.tok(&t, false, false);
            }
            V::Name(n) => { let t = self.name_text(n); let reg_end = true; start = self.tok(&t, false, reg_end); }
            V::Ref(n, g) => {
                start = self.tok(n.to_string().as_bytes(), true, true);
                self.tok(g.to_string().as_bytes(), true, true);
                self.tok(b"R", true, true);
            }
            V::Arr(a) => {
                start = self.tok(b"[", false, false);
                for x in a { self.value(x); }
                self.tok(b"]", false, false);
            }
            V::Dict(d) => {
                start = self.tok(b"<<", false, false);
                for (k, x) in d { let t = self.name_text(k); self.tok(&t, false, true); self.value(x); }
                self.tok(b">>", false, false);
            }
        }
        (start, self.out.len())
    }
}
