//! Panic monitor: a process-wide hook that records location + message of a panic
//! raised inside a monitored call, and a wrapper that turns it into a value.
use std::cell::RefCell;
use std::panic::{catch_unwind, AssertUnwindSafe};
use std::sync::Once;

#[derive(Clone, Debug)]
pub struct PanicRec {
    pub file: String,
    pub line: u32,
    pub msg: String,
    pub pdf_frame: Option<String>,
}

thread_local! {
    static LAST: RefCell<Option<PanicRec>> = RefCell::new(None);
    static QUIET: RefCell<u32> = RefCell::new(0);
}
static INSTALL: Once = Once::new();

pub fn install() {
    INSTALL.call_once(|| {
        let prev = std::panic::take_hook();
        std::panic::set_hook(Box::new(move |info| {
            let quiet = QUIET.with(|q| *q.borrow()) > 0;
            if !quiet {
                prev(info);
                return;
            }
            let (file, line) = info.location().map(|l| (l.file().to_string(), l.line())).unwrap_or_default();
            let msg = if let Some(s) = info.payload().downcast_ref::<&str>() { s.to_string() }
                else if let Some(s) = info.payload().downcast_ref::<String>() { s.clone() }
                else { "<non-string payload>".into() };
            let mut pdf_frame = None;
            if !in_repo(&file) {
                let bt = std::backtrace::Backtrace::force_capture().to_string();
                for l in bt.lines() {
                    let l = l.trim();
                    if let Some(idx) = l.find(": ") {
                        let sym = &l[idx + 2..];
                        if sym.starts_with("pdf::") || sym.starts_with("<pdf::") {
                            pdf_frame = Some(strip_hash(sym));
                            break;
                        }
                    }
                    // inlined frames only show up as "at <file>:<line>:<col>"
                    if let Some(rest) = l.strip_prefix("at ") {
                        if in_repo(rest) {
                            let mut it = rest.rsplitn(3, ':');
                            let _col = it.next(); let line = it.next().and_then(|x| x.parse::<u32>().ok()).unwrap_or(0); let file = it.next().unwrap_or(rest);
                            pdf_frame = Some(format!("{}::{}", rel_file(file), enclosing_fn(file, line)));
                            break;
                        }
                    }
                }
            }
            LAST.with(|l| *l.borrow_mut() = Some(PanicRec { file, line, msg, pdf_frame }));
        }));
    });
}

fn strip_hash(s: &str) -> String {
    // drop trailing ::h0123456789abcdef
    if let Some(i) = s.rfind("::h") { if s.len() - i == 19 { return s[..i].to_string(); } }
    s.to_string()
}

pub fn in_repo(file: &str) -> bool {
    file.starts_with("/repo/") || file.starts_with("pdf/src") || file.starts_with("pdf_derive/")
        || file.contains("/pdf/src/") && !file.contains(".cargo")
}

/// Run `f`; a panic becomes Err(PanicRec). Nothing is printed.
pub fn guard<T>(f: impl FnOnce() -> T) -> Result<T, PanicRec> {
    install();
    QUIET.with(|q| *q.borrow_mut() += 1);
    LAST.with(|l| *l.borrow_mut() = None);
    let r = catch_unwind(AssertUnwindSafe(f));
    QUIET.with(|q| *q.borrow_mut() -= 1);
    match r {
        Ok(v) => Ok(v),
        Err(_) => Err(LAST.with(|l| l.borrow_mut().take()).unwrap_or(PanicRec {
            file: "?".into(), line: 0, msg: "panic without record".into(), pdf_frame: None })),
    }
}

/// message with all digit runs replaced by N, cut at 120 chars, first line only
pub fn template(msg: &str) -> String {
    let first = msg.lines().next().unwrap_or("");
    let mut out = String::new();
    let mut in_num = false;
    for c in first.chars() {
        if c.is_ascii_digit() { if !in_num { out.push('N'); in_num = true; } }
        else { in_num = false; out.push(c); }
    }
    out.chars().take(120).collect()
}

/// crate-relative file ("pdf/src/enc.rs") for in-repo locations
pub fn rel_file(file: &str) -> String {
    if let Some(i) = file.find("pdf/src/") { return file[i..].to_string(); }
    if let Some(i) = file.find("pdf_derive/") { return file[i..].to_string(); }
    if let Some(i) = file.find("/registry/src/") {
        // dep: <crate-version>/src/..
        let rest = &file[i + 14..];
        if let Some(j) = rest.find('/') { return format!("dep:{}", &rest[j + 1..]); }
    }
    if let Some(i) = file.find("/library/") { return format!("std:{}", &file[i + 9..]); }
    file.to_string()
}

/// Name of the function enclosing `line` in the current /repo source (nearest `fn` header above).
pub fn enclosing_fn(file: &str, line: u32) -> String {
    let rel = rel_file(file);
    if !rel.starts_with("pdf") { return "?".into(); }
    let path = format!("/repo/{}", rel);
    let Ok(src) = std::fs::read_to_string(&path) else { return "?".into() };
    let lines: Vec<&str> = src.lines().collect();
    let mut i = (line as usize).min(lines.len());
    while i > 0 {
        let l = lines[i - 1];
        if let Some(p) = l.find("fn ") {
            let before = &l[..p];
            let okpre = before.trim().is_empty() || before.trim_end().ends_with("pub") || before.contains("pub(") 
                || before.trim_end().ends_with("const") || before.trim_end().ends_with("unsafe") || before.trim_end().ends_with("async");
            if okpre && !l.trim_start().starts_with("//") {
                let name: String = l[p + 3..].chars().take_while(|c| c.is_alphanumeric() || *c == '_').collect();
                if !name.is_empty() { return name; }
            }
        }
        i -= 1;
    }
    "?".into()
}

impl PanicRec {
    /// location-based signature, no line numbers
    pub fn signature(&self) -> String {
        if in_repo(&self.file) {
            format!("panic|{}|{}|{}", rel_file(&self.file), enclosing_fn(&self.file, self.line), template(&self.msg))
        } else {
            format!("panic|{}|via {}|{}", rel_file(&self.file), self.pdf_frame.clone().unwrap_or_else(|| "?".into()), template(&self.msg))
        }
    }
    pub fn describe(&self) -> String { format!("{}:{}: {}", self.file, self.line, self.msg.lines().next().unwrap_or("")) }
}
