//! Generic "generate from tape → oracle on the real code → shrink → signed violation" step.
use crate::run::Run;
use crate::tape::{shrink, Src};
use serde_json::{json, Value};

/// Returns true when the case held. `oracle` returns Some((outcome class, detail)) on failure.
pub fn check_case<C>(
    run: &Run, prop: &str, prefix: &str, mut src: Src,
    gen: &dyn Fn(&mut Src) -> C,
    oracle: &dyn Fn(&C) -> Option<(String, String)>,
    witness: &dyn Fn(&C) -> Value,
    on_case: &dyn Fn(&C, &Src),
    params: Value,
) -> bool {
    let c = gen(&mut src);
    on_case(&c, &src);
    let Some((cls, _)) = oracle(&c) else { return true };
    let tape = src.tape.clone();
    let small = shrink(&tape, |t| {
        let mut s2 = Src::replay(t);
        let c2 = gen(&mut s2);
        matches!(oracle(&c2), Some((k, _)) if k == cls)
    }, 500);
    let mut s3 = Src::replay(&small);
    let c3 = gen(&mut s3);
    let (cls3, detail) = oracle(&c3).unwrap_or((cls.clone(), "(shrunk case no longer fails)".into()));
    let labels = s3.label_set();
    let sig = format!("{}|{}|{}|{}", prop, prefix, labels, cls3);
    run.violation(&sig, &detail, json!({"tape": small, "labels": labels, "case": witness(&c3), "params": params}));
    false
}
