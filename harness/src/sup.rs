//! Supervisor: a pool of child processes (`pdfmon --worker …`) that execute cases by index, so that a
//! stack overflow, abort, runaway allocation or CPU hog kills one child, is attributed to the case it
//! had announced, and the run goes on.
use crate::run::Run;
use serde_json::{json, Value};
use std::collections::BTreeMap;
use std::io::{BufRead, BufReader, Write};
use std::process::{Child, Command, Stdio};
use std::sync::atomic::{AtomicBool, AtomicU64, Ordering};
use std::sync::{Arc, Mutex};
use std::time::{Duration, Instant};

/// What a worker reports for one case.
#[derive(Default)]
pub struct CaseOut {
    pub violations: Vec<(String, String, Value)>,
    pub nontrivial: Option<u64>,
    pub input_len: u64,
    pub sample: Option<Value>,
}

pub type CaseFn<'a> = Box<dyn FnMut(u64, &mut CaseOut, &mut BTreeMap<String, u64>) + 'a>;

/// Worker main loop (called in the child). Protocol on stdin: `R lo hi`; on stdout: `B i`, `E i <json>`, `D <json counters>`.
pub fn worker_loop(mut f: CaseFn) {
    crate::mon::install_worker_monitors();
    let stdin = std::io::stdin();
    let stdout = std::io::stdout();
    let mut line = String::new();
    loop {
        line.clear();
        if stdin.lock().read_line(&mut line).unwrap_or(0) == 0 { break; }
        let parts: Vec<&str> = line.split_whitespace().collect();
        if parts.len() != 3 || parts[0] != "R" { continue; }
        let (lo, hi): (u64, u64) = (parts[1].parse().unwrap_or(0), parts[2].parse().unwrap_or(0));
        let mut counters: BTreeMap<String, u64> = BTreeMap::new();
        for i in lo..hi {
            { let mut o = stdout.lock(); let _ = writeln!(o, "B {}", i); let _ = o.flush(); }
            let mut out = CaseOut::default();
            f(i, &mut out, &mut counters);
            let v: Vec<Value> = out.violations.iter().map(|(s, w, x)| json!([s, w, x])).collect();
            let j = json!({"v": v, "nt": out.nontrivial, "s": out.sample});
            { let mut o = stdout.lock(); let _ = writeln!(o, "E {} {}", i, j); let _ = o.flush(); }
        }
        { let mut o = stdout.lock(); let _ = writeln!(o, "D {}", json!(counters)); let _ = o.flush(); }
    }
}

/// Run a case inside the worker under the resource monitors; budget overruns that do not kill the
/// process (peak allocation above the allowance, CPU above the allowance when the monitor missed it)
/// are reported as violations here.
/// print a heartbeat line so that the parent's wall-clock watchdog sees progress inside a long case
pub fn heartbeat() { let o = std::io::stdout(); let mut o = o.lock(); let _ = writeln!(o, "H"); let _ = o.flush(); }

pub fn monitored(idx: u64, input_len: u64, out: &mut CaseOut, counters: &mut BTreeMap<String, u64>, labels: &str, prop: &str, body: impl FnOnce(&mut CaseOut, &mut BTreeMap<String, u64>)) {
    let base = crate::mon::begin_case(idx, input_len);
    body(out, counters);
    let u = crate::mon::end_case(base, input_len);
    out.input_len = input_len;
    *counters.entry("cpu_us_total".into()).or_insert(0) += (u.cpu_ns / 1_000) as u64;
    let c = counters.entry("max_peak_alloc_bytes".into()).or_insert(0); if u.peak_over_base > *c { *c = u.peak_over_base; }
    let c = counters.entry("max_cpu_us".into()).or_insert(0); if (u.cpu_ns / 1_000) as u64 > *c { *c = (u.cpu_ns / 1_000) as u64; }
    *counters.entry("decoded_bytes_total".into()).or_insert(0) += u.decoded;
    if u.alloc_over {
        out.violations.push((format!("{}|alloc-budget|{}", prop, labels), format!("peak allocation {} bytes for input {} + decoded {} bytes (allowance {})", u.peak_over_base, input_len, u.decoded, crate::mon::alloc_allowance(input_len, u.decoded)), json!({"idx": idx})));
    }
    if u.cpu_ns > crate::mon::cpu_allowance_ns(input_len, u.decoded) {
        out.violations.push((format!("{}|cpu-budget|{}", prop, labels), format!("{} ms of CPU for input {} + decoded {} bytes", u.cpu_ns / 1_000_000, input_len, u.decoded), json!({"idx": idx})));
    }
}

struct WorkerProc { child: Child, stdin: std::process::ChildStdin, stdout: BufReader<std::process::ChildStdout>, stderr_path: String }

fn spawn(prop: &str, tier: &str, seed: u64, slot: usize, extra_env: &[(String, String)]) -> WorkerProc {
    // a sanitizer lane runs the same worker protocol from a differently built binary
    let exe = match extra_env.iter().find(|(k, _)| k == "VERIF_WORKER_EXE") { Some((_, v)) => std::path::PathBuf::from(v), None => std::env::current_exe().expect("current_exe") };
    let stderr_path = format!("{}/harness/target/worker-{}-{}-{}.stderr", crate::run::verif_root(), prop, std::process::id(), slot);
    let errf = std::fs::File::create(&stderr_path).expect("stderr file");
    let mut cmd = Command::new(exe);
    cmd.arg("--worker").arg(prop).arg(tier).arg(seed.to_string()).stdin(Stdio::piped()).stdout(Stdio::piped()).stderr(errf);
    for (k, v) in extra_env { cmd.env(k, v); }
    let mut child = cmd.spawn().expect("spawn worker");
    let stdin = child.stdin.take().unwrap();
    let stdout = BufReader::new(child.stdout.take().unwrap());
    WorkerProc { child, stdin, stdout, stderr_path }
}

pub struct Crash { pub idx: u64, pub kind: String, pub entry: String, pub detail: String }

/// Execute cases 0..n in children. `describe(idx)` (parent side, deterministic regeneration) gives the
/// label string and a witness for a case that killed its worker.
pub fn run_cases(run: &Run, prop: &str, n: u64, chunk: u64, describe: &(dyn Fn(u64) -> (String, Value) + Sync)) {
    run_cases_lane(run, prop, 0, n, chunk, describe, &[], "");
}

/// Same, for the index range lo..n, optionally with a different worker binary / environment (sanitizer lanes).
pub fn run_cases_lane(run: &Run, prop: &str, lo: u64, n: u64, chunk: u64, describe: &(dyn Fn(u64) -> (String, Value) + Sync), env: &[(String, String)], lane: &str) {
    let tier = if run.quick() { "quick" } else { "thorough" };
    let next = AtomicU64::new(lo);
    let workers = crate::par::threads();
    let total_counters: Mutex<BTreeMap<String, u64>> = Mutex::new(BTreeMap::new());
    let wall_limit = Duration::from_secs(std::env::var("VERIF_CASE_WALL_S").ok().and_then(|s| s.parse().ok()).unwrap_or(45));
    std::thread::scope(|sc| {
        for slot in 0..workers {
            let (next, total_counters) = (&next, &total_counters);
            sc.spawn(move || {
                let mut wp = spawn(prop, tier, run.seed, slot, env);
                loop {
                    let lo = next.fetch_add(chunk, Ordering::Relaxed);
                    if lo >= n { break; }
                    let hi = (lo + chunk).min(n);
                    let mut cur = lo;
                    'chunk: while cur < hi {
                        if writeln!(wp.stdin, "R {} {}", cur, hi).and_then(|_| wp.stdin.flush()).is_err() { /* worker already dead: handled below via EOF */ }
                        let mut begun: Option<u64> = None;
                        let mut xline: Option<String> = None;
                        let progress = Arc::new(Mutex::new(Instant::now()));
                        let killed = Arc::new(AtomicBool::new(false));
                        // watchdog for this chunk
                        let done = Arc::new(AtomicBool::new(false));
                        let pid = wp.child.id();
                        let wd = { let (progress, killed, done) = (progress.clone(), killed.clone(), done.clone());
                            std::thread::spawn(move || { while !done.load(Ordering::Relaxed) { std::thread::sleep(Duration::from_millis(200));
                                if progress.lock().unwrap().elapsed() > wall_limit { killed.store(true, Ordering::Relaxed); unsafe { libc::kill(pid as i32, libc::SIGKILL); } break; } } }) };
                        let mut line = String::new();
                        let mut finished = false;
                        loop {
                            line.clear();
                            let got = wp.stdout.read_line(&mut line).unwrap_or(0);
                            if got == 0 { break; }
                            *progress.lock().unwrap() = Instant::now();
                            let l = line.trim_end();
                            if let Some(rest) = l.strip_prefix("B ") { begun = rest.parse().ok(); }
                            else if let Some(rest) = l.strip_prefix("E ") {
                                let (i, j) = rest.split_once(' ').unwrap_or((rest, "{}"));
                                let idx: u64 = i.parse().unwrap_or(0);
                                run.eval();
                                if let Ok(v) = serde_json::from_str::<Value>(j) {
                                    if let Some(nt) = v["nt"].as_u64() { run.nontrivial(nt); }
                                    if !v["s"].is_null() { run.sample_cap(8, || v["s"].clone()); }
                                    if let Some(arr) = v["v"].as_array() { for x in arr {
                                        if x[0].as_str() == Some("C13-INCONCLUSIVE") { run.inconclusive(x[1].as_str().unwrap_or("").to_string()); continue; }
                                        let sg = x[0].as_str().unwrap_or("");
                                        if (sg.contains("|cpu-budget|") || sg.contains("|alloc-budget|")) && confirm_deaths() && !dies_again(prop, tier, run.seed, slot, env, idx, wall_limit) {
                                            run.count("budget_overrun_not_reproduced");
                                            run.inconclusive(format!("case {}: {} did not repeat in a fresh worker (not a verdict)", idx, sg));
                                            continue;
                                        }
                                        run.violation(x[0].as_str().unwrap_or("?"), x[1].as_str().unwrap_or(""), json!({"idx": idx, "detail": x[2]})); } }
                                }
                                begun = None;
                                cur = idx + 1;
                            }
                            else if let Some(rest) = l.strip_prefix("D ") {
                                if let Ok(Value::Object(m)) = serde_json::from_str::<Value>(rest) {
                                    let mut t = total_counters.lock().unwrap();
                                    for (k, v) in m { let n = v.as_u64().unwrap_or(0); let e = t.entry(k.clone()).or_insert(0); if k.starts_with("max_") { if n > *e { *e = n; } } else { *e += n; } }
                                }
                                finished = true; break;
                            }
                            else if l.starts_with("X ") { xline = Some(l.to_string()); }
                            // "H": heartbeat of a long-running case (progress for the watchdog only)
                        }
                        done.store(true, Ordering::Relaxed);
                        let _ = wd.join();
                        if finished { cur = hi; continue 'chunk; }
                        // the worker died (or was killed by the watchdog) while running `begun`
                        let status = wp.child.wait().ok();
                        let stderr_tail = std::fs::read_to_string(&wp.stderr_path).unwrap_or_default();
                        let tail: String = stderr_tail.lines().filter(|l| !l.trim().is_empty()).rev().take(if stderr_tail.contains("Sanitizer") { 400 } else { 6 }).collect::<Vec<_>>().into_iter().rev().collect::<Vec<_>>().join(" | ");
                        let idx = begun.unwrap_or(cur);
                        run.eval();
                        if killed.load(Ordering::Relaxed) {
                            run.inconclusive(format!("case {} exceeded the {} s wall-clock watchdog (not a verdict)", idx, wall_limit.as_secs()));
                        } else if confirm_deaths() && !prop.starts_with("C13") && !dies_again(prop, tier, run.seed, slot, env, idx, wall_limit) {
                            // cases are deterministic: a death that does not repeat in a fresh worker came from the environment
                            // (observed: per-thread CPU clocks jumping by ~15 s in all workers when the VM was snapshotted)
                            let (kind, _, _) = classify(&xline, &tail, status);
                            run.count("worker_death_not_reproduced");
                            run.inconclusive(format!("case {}: worker died ({}) but the case completes in a fresh worker (not a verdict)", idx, kind));
                        } else {
                            let (kind, entry, extra) = classify(&xline, &tail, status);
                            let (labels, wit) = describe(idx);
                            // crashes are identified by kind + the read entry point that was executing (the case labels go into the witness)
                            // ... except for the enumerated hand-written cases, whose label names the construct: its template is part of the
                            // signature, so that a recorded finding about one construct cannot hide a crash caused by another
                            let fam = if labels.starts_with("special:") { format!("|{}", crate::panicmon::template(&labels)) } else { String::new() };
                            let sig = if lane.is_empty() { format!("{}|crash|{}|entry={}{}", prop, kind, entry, fam) } else { format!("{}|{}|crash|{}|entry={}{}", prop, lane, kind, entry, fam) };
                            run.violation(&sig, &format!("worker died on case {}: {} {} ; stderr: {}", idx, kind, extra, tail.chars().take(300).collect::<String>()), json!({"idx": idx, "labels": labels, "case": wit}));
                        }
                        cur = idx + 1;
                        wp = spawn(prop, tier, run.seed, slot, env);
                    }
                }
                drop(wp.stdin);
                let _ = wp.child.wait();
                let _ = std::fs::remove_file(&wp.stderr_path);
            });
        }
    });
    for (k, v) in total_counters.into_inner().unwrap() { run.add(&k, v); }
}

fn confirm_deaths() -> bool { std::env::var("VERIF_NO_CONFIRM").is_err() }

/// Re-run one case alone in a fresh worker; true if the worker dies (or reports a budget overrun) again.
fn dies_again(prop: &str, tier: &str, seed: u64, slot: usize, env: &[(String, String)], idx: u64, wall: Duration) -> bool {
    let mut wp = spawn(prop, tier, seed, slot + 1000, env);
    let _ = writeln!(wp.stdin, "R {} {}", idx, idx + 1).and_then(|_| wp.stdin.flush());
    let pid = wp.child.id();
    let done = Arc::new(AtomicBool::new(false));
    let killed = Arc::new(AtomicBool::new(false));
    let progress = Arc::new(Mutex::new(Instant::now()));
    let wd = { let (done, killed, progress) = (done.clone(), killed.clone(), progress.clone()); std::thread::spawn(move || { while !done.load(Ordering::Relaxed) { std::thread::sleep(Duration::from_millis(200)); if progress.lock().unwrap().elapsed() > wall { killed.store(true, Ordering::Relaxed); unsafe { libc::kill(pid as i32, libc::SIGKILL); } break; } } }) };
    let mut line = String::new();
    let mut completed = false;
    let mut overrun = false;
    loop {
        line.clear();
        if wp.stdout.read_line(&mut line).unwrap_or(0) == 0 { break; }
        *progress.lock().unwrap() = Instant::now();
        if line.starts_with("E ") { if line.contains("|cpu-budget|") || line.contains("|alloc-budget|") { overrun = true; } }
        if line.starts_with("D ") { completed = true; break; }
    }
    done.store(true, Ordering::Relaxed);
    let _ = wd.join();
    drop(wp.stdin);
    let _ = wp.child.kill();
    let _ = wp.child.wait();
    let _ = std::fs::remove_file(&wp.stderr_path);
    if killed.load(Ordering::Relaxed) { return false; } // a hang on the re-run is no confirmation either
    !completed || overrun
}

fn classify(xline: &Option<String>, stderr_tail: &str, status: Option<std::process::ExitStatus>) -> (String, String, String) {
    use std::os::unix::process::ExitStatusExt;
    let mut entry = "?".to_string();
    let mut extra = String::new();
    let mut kind = String::new();
    if let Some(x) = xline {
        // X idx kind entry=N extra=M decoded=K
        let parts: Vec<&str> = x.split_whitespace().collect();
        if parts.len() >= 3 { kind = parts[2].to_string(); }
        for p in &parts { if let Some(e) = p.strip_prefix("entry=") { if let Ok(i) = e.parse::<usize>() { entry = crate::walk::ENTRIES.get(i).unwrap_or(&"?").to_string(); } } }
        extra = x.clone();
    }
    if kind == "abort" || kind.is_empty() {
        if stderr_tail.contains("AddressSanitizer") { kind = format!("asan-{}", stderr_tail.split("AddressSanitizer: ").nth(1).and_then(|s| s.split_whitespace().next()).unwrap_or("report")); }
        else if stderr_tail.contains("ThreadSanitizer") { kind = "tsan-report".into(); }
        else if stderr_tail.contains("overflowed its stack") { kind = "stack-overflow".into(); }
        else if stderr_tail.contains("memory allocation of") { kind = "alloc-failed".into(); }
        else if kind.is_empty() {
            kind = match status { Some(s) => match (s.signal(), s.code()) { (Some(sig), _) => format!("signal-{}", sig), (_, Some(c)) => format!("exit-{}", c), _ => "died".into() }, None => "died".into() };
        }
    }
    if kind == "alloc-hard" {
        // 6 GiB live: a violation unless the filters' output explains it
        kind = "alloc-budget".into();
    }
    (kind, entry, extra)
}
