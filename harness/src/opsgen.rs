//! Reusable machinery for content-stream operations (`pdf::content::Op`):
//!   * `gen_ops` / `gen_ops_cfg`  — tape-driven generator over every `Op` variant `serialize_ops` accepts
//!     (all but `InlineImage`), biased towards the writer's shorthand triggers;
//!   * `ops_equal`, `ops_digest`  — structural comparator / digest (`Op`, `Color`, … lack `PartialEq`);
//!   * `Repr` / `to_repr` / `from_repr` — a neutral, comparable, editable picture of an `Op`;
//!   * `minimise_ops`, `features`, `kind_of` — op-level delta debugging and labels for signatures.
//! Numbers are compared as IEEE values (`-0 == 0`), `Integer(n)` ≡ `Number(n as f32)`, dictionaries
//! irrespective of order.
use crate::tape::Src;
use pdf::content::*;
use pdf::object::{NoResolve, PlainRef, RenderingIntent};
use pdf::primitive::{Dictionary, Name, PdfString, Primitive};
use std::collections::BTreeSet;

// ------------------------------------------------------------------------------------------------
// neutral representation
// ------------------------------------------------------------------------------------------------

#[derive(Clone, Debug)]
pub enum Val {
    Num(f32),
    Name(String),
    Str(Vec<u8>),
    Prim(Primitive),
    Absent,
    Tag(&'static str),
    List(Vec<Val>),
}

#[derive(Clone, Debug)]
pub struct Repr {
    pub kind: &'static str,
    pub f: Vec<Val>,
}

fn n(v: f32) -> Val { Val::Num(v) }
fn nm(s: &Name) -> Val { Val::Name(s.as_str().to_string()) }
fn pt(p: &Point) -> [Val; 2] { [n(p.x), n(p.y)] }
fn mx(m: &Matrix) -> Vec<Val> { vec![n(m.a), n(m.b), n(m.c), n(m.d), n(m.e), n(m.f)] }
fn wind(w: Winding) -> Val { Val::Tag(match w { Winding::NonZero => "NonZero", Winding::EvenOdd => "EvenOdd" }) }
fn color(c: &Color) -> Vec<Val> {
    match c {
        Color::Gray(g) => vec![Val::Tag("Gray"), n(*g)],
        Color::Rgb(c) => vec![Val::Tag("Rgb"), n(c.red), n(c.green), n(c.blue)],
        Color::Cmyk(c) => vec![Val::Tag("Cmyk"), n(c.cyan), n(c.magenta), n(c.yellow), n(c.key)],
        Color::Other(v) => vec![Val::Tag("Other"), Val::List(v.iter().cloned().map(Val::Prim).collect())],
    }
}
fn props(p: &Option<Primitive>) -> Val { match p { Some(p) => Val::Prim(p.clone()), None => Val::Absent } }

pub const JOINS: [&str; 3] = ["J.Miter", "J.Round", "J.Bevel"];
pub const CAPS: [&str; 3] = ["C.Butt", "C.Round", "C.Square"];
pub const MODES: [&str; 8] = ["M.Fill", "M.Stroke", "M.FillThenStroke", "M.Invisible", "M.FillAndClip", "M.StrokeAndClip", "M.FillStrokeAndClip", "M.Clip"];
pub const INTENTS: [&str; 4] = ["I.RelativeColorimetric", "I.AbsoluteColorimetric", "I.Perceptual", "I.Saturation"];

pub fn to_repr(op: &Op) -> Repr {
    let r = |kind: &'static str, f: Vec<Val>| Repr { kind, f };
    match op {
        Op::BeginMarkedContent { tag, properties } => r("BeginMarkedContent", vec![nm(tag), props(properties)]),
        Op::EndMarkedContent => r("EndMarkedContent", vec![]),
        Op::MarkedContentPoint { tag, properties } => r("MarkedContentPoint", vec![nm(tag), props(properties)]),
        Op::Close => r("Close", vec![]),
        Op::MoveTo { p } => r("MoveTo", pt(p).to_vec()),
        Op::LineTo { p } => r("LineTo", pt(p).to_vec()),
        Op::CurveTo { c1, c2, p } => r("CurveTo", [pt(c1), pt(c2), pt(p)].concat()),
        Op::Rect { rect } => r("Rect", vec![n(rect.x), n(rect.y), n(rect.width), n(rect.height)]),
        Op::EndPath => r("EndPath", vec![]),
        Op::Stroke => r("Stroke", vec![]),
        Op::FillAndStroke { winding } => r("FillAndStroke", vec![wind(*winding)]),
        Op::Fill { winding } => r("Fill", vec![wind(*winding)]),
        Op::Shade { name } => r("Shade", vec![nm(name)]),
        Op::Clip { winding } => r("Clip", vec![wind(*winding)]),
        Op::Save => r("Save", vec![]),
        Op::Restore => r("Restore", vec![]),
        Op::Transform { matrix } => r("Transform", mx(matrix)),
        Op::LineWidth { width } => r("LineWidth", vec![n(*width)]),
        Op::Dash { pattern, phase } => r("Dash", vec![Val::List(pattern.iter().map(|v| n(*v)).collect()), n(*phase)]),
        Op::LineJoin { join } => r("LineJoin", vec![Val::Tag(JOINS[*join as usize])]),
        Op::LineCap { cap } => r("LineCap", vec![Val::Tag(CAPS[*cap as usize])]),
        Op::MiterLimit { limit } => r("MiterLimit", vec![n(*limit)]),
        Op::Flatness { tolerance } => r("Flatness", vec![n(*tolerance)]),
        Op::GraphicsState { name } => r("GraphicsState", vec![nm(name)]),
        Op::StrokeColor { color: c } => r("StrokeColor", color(c)),
        Op::FillColor { color: c } => r("FillColor", color(c)),
        Op::FillColorSpace { name } => r("FillColorSpace", vec![nm(name)]),
        Op::StrokeColorSpace { name } => r("StrokeColorSpace", vec![nm(name)]),
        Op::RenderingIntent { intent } => r("RenderingIntent", vec![Val::Tag(match intent {
            RenderingIntent::RelativeColorimetric => INTENTS[0],
            RenderingIntent::AbsoluteColorimetric => INTENTS[1],
            RenderingIntent::Perceptual => INTENTS[2],
            RenderingIntent::Saturation => INTENTS[3],
        })]),
        Op::BeginText => r("BeginText", vec![]),
        Op::EndText => r("EndText", vec![]),
        Op::CharSpacing { char_space } => r("CharSpacing", vec![n(*char_space)]),
        Op::WordSpacing { word_space } => r("WordSpacing", vec![n(*word_space)]),
        Op::TextScaling { horiz_scale } => r("TextScaling", vec![n(*horiz_scale)]),
        Op::Leading { leading } => r("Leading", vec![n(*leading)]),
        Op::TextFont { name, size } => r("TextFont", vec![nm(name), n(*size)]),
        Op::TextRenderMode { mode } => r("TextRenderMode", vec![Val::Tag(match mode {
            TextMode::Fill => MODES[0], TextMode::Stroke => MODES[1], TextMode::FillThenStroke => MODES[2],
            TextMode::Invisible => MODES[3], TextMode::FillAndClip => MODES[4], TextMode::StrokeAndClip => MODES[5],
            TextMode::FillThenStrokeAndClip => MODES[6], TextMode::Clip => MODES[7],
        })]),
        Op::TextRise { rise } => r("TextRise", vec![n(*rise)]),
        Op::MoveTextPosition { translation } => r("MoveTextPosition", pt(translation).to_vec()),
        Op::SetTextMatrix { matrix } => r("SetTextMatrix", mx(matrix)),
        Op::TextNewline => r("TextNewline", vec![]),
        Op::TextDraw { text } => r("TextDraw", vec![Val::Str(text.as_bytes().to_vec())]),
        Op::TextDrawAdjusted { array } => r("TextDrawAdjusted", vec![Val::List(array.iter().map(|e| match e {
            TextDrawAdjusted::Text(t) => Val::Str(t.as_bytes().to_vec()),
            TextDrawAdjusted::Spacing(s) => n(*s),
        }).collect())]),
        Op::XObject { name } => r("XObject", vec![nm(name)]),
        Op::InlineImage { image } => {
            let d = &image.inner.info.info;
            let data = match crate::panicmon::guard(|| image.inner.data(&NoResolve)) {
                Ok(Ok(d)) => Val::Str(d.to_vec()),
                Ok(Err(_)) => Val::Tag("data-error"),
                Err(_) => Val::Tag("data-panic"),
            };
            r("InlineImage", vec![
                n(d.width as f32), n(d.height as f32),
                match d.bits_per_component { Some(b) => n(b as f32), None => Val::Absent },
                match &d.color_space { Some(cs) => Val::Name(format!("{:?}", cs)), None => Val::Absent },
                Val::Tag(if d.image_mask { "mask" } else { "nomask" }),
                Val::Tag(if d.interpolate { "interpolate" } else { "nointerpolate" }),
                data,
            ])
        }
    }
}

fn gnum(v: &Val) -> Option<f32> { if let Val::Num(x) = v { Some(*x) } else { None } }
fn gname(v: &Val) -> Option<Name> { if let Val::Name(s) = v { Some(Name::from(s.as_str())) } else { None } }
fn gtag(v: &Val) -> Option<&'static str> { if let Val::Tag(s) = v { Some(*s) } else { None } }
fn gpoint(f: &[Val], i: usize) -> Option<Point> { Some(Point { x: gnum(f.get(i)?)?, y: gnum(f.get(i + 1)?)? }) }
fn gmatrix(f: &[Val]) -> Option<Matrix> {
    Some(Matrix { a: gnum(f.get(0)?)?, b: gnum(f.get(1)?)?, c: gnum(f.get(2)?)?, d: gnum(f.get(3)?)?, e: gnum(f.get(4)?)?, f: gnum(f.get(5)?)? })
}
fn gwind(v: &Val) -> Option<Winding> { match gtag(v)? { "NonZero" => Some(Winding::NonZero), "EvenOdd" => Some(Winding::EvenOdd), _ => None } }
fn gprops(v: &Val) -> Option<Option<Primitive>> { match v { Val::Prim(p) => Some(Some(p.clone())), Val::Absent => Some(None), _ => None } }
fn gcolor(f: &[Val]) -> Option<Color> {
    let g = |i: usize| gnum(f.get(i)?);
    match gtag(f.get(0)?)? {
        "Gray" => Some(Color::Gray(g(1)?)),
        "Rgb" => Some(Color::Rgb(Rgb { red: g(1)?, green: g(2)?, blue: g(3)? })),
        "Cmyk" => Some(Color::Cmyk(Cmyk { cyan: g(1)?, magenta: g(2)?, yellow: g(3)?, key: g(4)? })),
        "Other" => match f.get(1)? {
            Val::List(l) => Some(Color::Other(l.iter().map(|v| if let Val::Prim(p) = v { Some(p.clone()) } else { None }).collect::<Option<Vec<_>>>()?)),
            _ => None,
        },
        _ => None,
    }
}
pub fn pdf_string(b: &[u8]) -> PdfString { PdfString::new(b.into()) }

/// Inverse of `to_repr` (None for InlineImage or a malformed picture).
pub fn from_repr(r: &Repr) -> Option<Op> {
    let f = &r.f[..];
    Some(match r.kind {
        "BeginMarkedContent" => Op::BeginMarkedContent { tag: gname(f.get(0)?)?, properties: gprops(f.get(1)?)? },
        "EndMarkedContent" => Op::EndMarkedContent,
        "MarkedContentPoint" => Op::MarkedContentPoint { tag: gname(f.get(0)?)?, properties: gprops(f.get(1)?)? },
        "Close" => Op::Close,
        "MoveTo" => Op::MoveTo { p: gpoint(f, 0)? },
        "LineTo" => Op::LineTo { p: gpoint(f, 0)? },
        "CurveTo" => Op::CurveTo { c1: gpoint(f, 0)?, c2: gpoint(f, 2)?, p: gpoint(f, 4)? },
        "Rect" => Op::Rect { rect: ViewRect { x: gnum(f.get(0)?)?, y: gnum(f.get(1)?)?, width: gnum(f.get(2)?)?, height: gnum(f.get(3)?)? } },
        "EndPath" => Op::EndPath,
        "Stroke" => Op::Stroke,
        "FillAndStroke" => Op::FillAndStroke { winding: gwind(f.get(0)?)? },
        "Fill" => Op::Fill { winding: gwind(f.get(0)?)? },
        "Shade" => Op::Shade { name: gname(f.get(0)?)? },
        "Clip" => Op::Clip { winding: gwind(f.get(0)?)? },
        "Save" => Op::Save,
        "Restore" => Op::Restore,
        "Transform" => Op::Transform { matrix: gmatrix(f)? },
        "LineWidth" => Op::LineWidth { width: gnum(f.get(0)?)? },
        "Dash" => Op::Dash {
            pattern: match f.get(0)? { Val::List(l) => l.iter().map(gnum).collect::<Option<Vec<f32>>>()?, _ => return None },
            phase: gnum(f.get(1)?)?,
        },
        "LineJoin" => Op::LineJoin { join: match gtag(f.get(0)?)? { "J.Miter" => LineJoin::Miter, "J.Round" => LineJoin::Round, "J.Bevel" => LineJoin::Bevel, _ => return None } },
        "LineCap" => Op::LineCap { cap: match gtag(f.get(0)?)? { "C.Butt" => LineCap::Butt, "C.Round" => LineCap::Round, "C.Square" => LineCap::Square, _ => return None } },
        "MiterLimit" => Op::MiterLimit { limit: gnum(f.get(0)?)? },
        "Flatness" => Op::Flatness { tolerance: gnum(f.get(0)?)? },
        "GraphicsState" => Op::GraphicsState { name: gname(f.get(0)?)? },
        "StrokeColor" => Op::StrokeColor { color: gcolor(f)? },
        "FillColor" => Op::FillColor { color: gcolor(f)? },
        "FillColorSpace" => Op::FillColorSpace { name: gname(f.get(0)?)? },
        "StrokeColorSpace" => Op::StrokeColorSpace { name: gname(f.get(0)?)? },
        "RenderingIntent" => Op::RenderingIntent { intent: match gtag(f.get(0)?)? {
            "I.RelativeColorimetric" => RenderingIntent::RelativeColorimetric,
            "I.AbsoluteColorimetric" => RenderingIntent::AbsoluteColorimetric,
            "I.Perceptual" => RenderingIntent::Perceptual,
            "I.Saturation" => RenderingIntent::Saturation,
            _ => return None } },
        "BeginText" => Op::BeginText,
        "EndText" => Op::EndText,
        "CharSpacing" => Op::CharSpacing { char_space: gnum(f.get(0)?)? },
        "WordSpacing" => Op::WordSpacing { word_space: gnum(f.get(0)?)? },
        "TextScaling" => Op::TextScaling { horiz_scale: gnum(f.get(0)?)? },
        "Leading" => Op::Leading { leading: gnum(f.get(0)?)? },
        "TextFont" => Op::TextFont { name: gname(f.get(0)?)?, size: gnum(f.get(1)?)? },
        "TextRenderMode" => Op::TextRenderMode { mode: match gtag(f.get(0)?)? {
            "M.Fill" => TextMode::Fill, "M.Stroke" => TextMode::Stroke, "M.FillThenStroke" => TextMode::FillThenStroke,
            "M.Invisible" => TextMode::Invisible, "M.FillAndClip" => TextMode::FillAndClip, "M.StrokeAndClip" => TextMode::StrokeAndClip,
            "M.FillStrokeAndClip" => TextMode::FillThenStrokeAndClip, "M.Clip" => TextMode::Clip,
            _ => return None } },
        "TextRise" => Op::TextRise { rise: gnum(f.get(0)?)? },
        "MoveTextPosition" => Op::MoveTextPosition { translation: gpoint(f, 0)? },
        "SetTextMatrix" => Op::SetTextMatrix { matrix: gmatrix(f)? },
        "TextNewline" => Op::TextNewline,
        "TextDraw" => Op::TextDraw { text: match f.get(0)? { Val::Str(b) => pdf_string(b), _ => return None } },
        "TextDrawAdjusted" => Op::TextDrawAdjusted { array: match f.get(0)? {
            Val::List(l) => l.iter().map(|v| match v {
                Val::Str(b) => Some(TextDrawAdjusted::Text(pdf_string(b))),
                Val::Num(x) => Some(TextDrawAdjusted::Spacing(*x)),
                _ => None }).collect::<Option<Vec<_>>>()?,
            _ => return None } },
        "XObject" => Op::XObject { name: gname(f.get(0)?)? },
        _ => return None,
    })
}

/// Variant name, refined by the sub-choice that selects a different operator keyword
/// (winding, colour kind, with/without property list).
pub fn kind_of(r: &Repr) -> String {
    match r.kind {
        "FillAndStroke" | "Fill" | "Clip" => match r.f.get(0) { Some(Val::Tag("EvenOdd")) => format!("{}.EvenOdd", r.kind), _ => r.kind.to_string() },
        "StrokeColor" | "FillColor" => match r.f.get(0) { Some(Val::Tag(t)) => format!("{}.{}", r.kind, t), _ => r.kind.to_string() },
        "BeginMarkedContent" | "MarkedContentPoint" => match r.f.get(1) { Some(Val::Absent) => r.kind.to_string(), _ => format!("{}.props", r.kind) },
        k => k.to_string(),
    }
}
pub fn op_kind(op: &Op) -> String { kind_of(&to_repr(op)) }

// ------------------------------------------------------------------------------------------------
// comparison and digest
// ------------------------------------------------------------------------------------------------

pub fn prim_eq(a: &Primitive, b: &Primitive) -> bool {
    use Primitive::*;
    match (a, b) {
        (Integer(x), Integer(y)) => x == y,
        (Integer(x), Number(y)) | (Number(y), Integer(x)) => (*x as f32) == *y,
        (Number(x), Number(y)) => x == y,
        (Array(x), Array(y)) => x.len() == y.len() && x.iter().zip(y).all(|(p, q)| prim_eq(p, q)),
        (Dictionary(x), Dictionary(y)) => x.len() == y.len() && x.iter().all(|(k, v)| y.get(k.as_str()).map(|w| prim_eq(v, w)).unwrap_or(false)),
        (String(x), String(y)) => x.as_bytes() == y.as_bytes(),
        (Name(x), Name(y)) => x.as_str() == y.as_str(),
        (Boolean(x), Boolean(y)) => x == y,
        (Null, Null) => true,
        (Reference(x), Reference(y)) => x == y,
        (Stream(x), Stream(y)) => x == y,
        _ => false,
    }
}

pub fn val_eq(a: &Val, b: &Val) -> bool {
    match (a, b) {
        (Val::Num(x), Val::Num(y)) => x == y,
        (Val::Name(x), Val::Name(y)) => x == y,
        (Val::Str(x), Val::Str(y)) => x == y,
        (Val::Prim(x), Val::Prim(y)) => prim_eq(x, y),
        (Val::Absent, Val::Absent) => true,
        (Val::Tag(x), Val::Tag(y)) => x == y,
        (Val::List(x), Val::List(y)) => x.len() == y.len() && x.iter().zip(y).all(|(p, q)| val_eq(p, q)),
        _ => false,
    }
}
pub fn repr_eq(a: &Repr, b: &Repr) -> bool {
    a.kind == b.kind && a.f.len() == b.f.len() && a.f.iter().zip(&b.f).all(|(p, q)| val_eq(p, q))
}
pub fn op_eq(a: &Op, b: &Op) -> bool { repr_eq(&to_repr(a), &to_repr(b)) }

fn show_prim(p: &Primitive, out: &mut String) {
    match p {
        Primitive::Integer(i) => out.push_str(&format!("int {}", i)),
        Primitive::Number(x) => out.push_str(&format!("real {:?}", x)),
        Primitive::Name(s) => out.push_str(&format!("/{:?}", s.as_str())),
        Primitive::String(s) => out.push_str(&format!("({})", crate::run::show(s.as_bytes()))),
        Primitive::Array(a) => { out.push('['); for (i, e) in a.iter().enumerate() { if i > 0 { out.push(' '); } show_prim(e, out); } out.push(']'); }
        Primitive::Dictionary(d) => { out.push_str("<<"); for (k, v) in d.iter() { out.push_str(&format!("/{:?} ", k.as_str())); show_prim(v, out); out.push(' '); } out.push_str(">>"); }
        Primitive::Boolean(b) => out.push_str(&format!("{}", b)),
        Primitive::Null => out.push_str("null"),
        Primitive::Reference(r) => out.push_str(&format!("{} {} R", r.id, r.gen)),
        Primitive::Stream(_) => out.push_str("<stream>"),
    }
}
fn show_val(v: &Val, out: &mut String) {
    match v {
        Val::Num(x) => out.push_str(&format!("{:?}", x)),
        Val::Name(s) => out.push_str(&format!("/{:?}", s)),
        Val::Str(b) => out.push_str(&format!("({})", crate::run::show(b))),
        Val::Prim(p) => show_prim(p, out),
        Val::Absent => out.push('-'),
        Val::Tag(t) => out.push_str(t),
        Val::List(l) => { out.push('['); for (i, e) in l.iter().enumerate() { if i > 0 { out.push(' '); } show_val(e, out); } out.push(']'); }
    }
}
pub fn show_repr(r: &Repr) -> String {
    let mut s = String::from(r.kind);
    s.push('{');
    for (i, v) in r.f.iter().enumerate() { if i > 0 { s.push_str(", "); } show_val(v, &mut s); }
    s.push('}');
    s
}
pub fn show_op(op: &Op) -> String { show_repr(&to_repr(op)) }
pub fn show_ops(ops: &[Op]) -> Vec<String> { ops.iter().map(show_op).collect() }

/// Compare pictures; describes the first difference.
pub fn reprs_equal(a: &[Repr], b: &[Repr]) -> Result<(), String> {
    for i in 0..a.len().min(b.len()) {
        if !repr_eq(&a[i], &b[i]) {
            return Err(format!("op #{} differs: expected {} got {} (expected {} ops, got {})", i, show_repr(&a[i]), show_repr(&b[i]), a.len(), b.len()));
        }
    }
    if a.len() > b.len() { return Err(format!("expected {} ops, got {}: first missing op #{} {}", a.len(), b.len(), b.len(), show_repr(&a[b.len()]))); }
    if a.len() < b.len() { return Err(format!("expected {} ops, got {}: first extra op #{} {}", a.len(), b.len(), a.len(), show_repr(&b[a.len()]))); }
    Ok(())
}
/// Structural comparison of two operation sequences (`a` = expected). f32 compared exactly as values,
/// Integer(n) ≡ Number(n as f32), dictionary order irrelevant.
pub fn ops_equal(a: &[Op], b: &[Op]) -> Result<(), String> {
    let ra: Vec<Repr> = a.iter().map(to_repr).collect();
    let rb: Vec<Repr> = b.iter().map(to_repr).collect();
    reprs_equal(&ra, &rb)
}
/// is `sub` obtainable from `full` by deleting at least one element?
pub fn is_strict_subsequence(sub: &[Repr], full: &[Repr]) -> bool {
    if sub.len() >= full.len() { return false; }
    let mut j = 0;
    for r in full { if j < sub.len() && repr_eq(&sub[j], r) { j += 1; } }
    j == sub.len()
}

fn dig_num(x: f32, out: &mut Vec<u8>) { out.push(b'n'); out.extend_from_slice(&(x + 0.0).to_bits().to_le_bytes()); }
fn dig_prim(p: &Primitive, out: &mut Vec<u8>) {
    match p {
        Primitive::Integer(i) => { if (*i as f32) as i64 == *i as i64 { dig_num(*i as f32, out) } else { out.push(b'i'); out.extend_from_slice(&i.to_le_bytes()); } }
        Primitive::Number(x) => dig_num(*x, out),
        Primitive::Name(s) => { out.push(b'/'); out.extend_from_slice(s.as_bytes()); out.push(0); }
        Primitive::String(s) => { out.push(b'('); out.extend_from_slice(&(s.as_bytes().len() as u32).to_le_bytes()); out.extend_from_slice(s.as_bytes()); }
        Primitive::Array(a) => { out.push(b'['); for e in a { dig_prim(e, out); } out.push(b']'); }
        Primitive::Dictionary(d) => {
            let mut items: Vec<(Vec<u8>, Vec<u8>)> = d.iter().map(|(k, v)| { let mut o = Vec::new(); dig_prim(v, &mut o); (k.as_bytes().to_vec(), o) }).collect();
            items.sort();
            out.push(b'<');
            for (k, v) in items { out.extend_from_slice(&k); out.push(0); out.extend_from_slice(&v); }
            out.push(b'>');
        }
        Primitive::Boolean(b) => out.push(if *b { b'T' } else { b'F' }),
        Primitive::Null => out.push(b'0'),
        Primitive::Reference(r) => { out.push(b'R'); out.extend_from_slice(&r.id.to_le_bytes()); out.extend_from_slice(&r.gen.to_le_bytes()); }
        Primitive::Stream(_) => out.push(b'S'),
    }
}
fn dig_val(v: &Val, out: &mut Vec<u8>) {
    match v {
        Val::Num(x) => dig_num(*x, out),
        Val::Name(s) => { out.push(b'/'); out.extend_from_slice(s.as_bytes()); out.push(0); }
        Val::Str(b) => { out.push(b'('); out.extend_from_slice(&(b.len() as u32).to_le_bytes()); out.extend_from_slice(b); }
        Val::Prim(p) => dig_prim(p, out),
        Val::Absent => out.push(b'-'),
        Val::Tag(t) => { out.push(b't'); out.extend_from_slice(t.as_bytes()); out.push(0); }
        Val::List(l) => { out.push(b'['); for e in l { dig_val(e, out); } out.push(b']'); }
    }
}
pub fn repr_bytes(r: &Repr, out: &mut Vec<u8>) {
    out.extend_from_slice(r.kind.as_bytes());
    out.push(b'{');
    for v in &r.f { dig_val(v, out); }
    out.push(b'}');
}
/// Digest that is equal for sequences `ops_equal` considers equal.
pub fn ops_digest(ops: &[Op]) -> String {
    let mut buf = Vec::new();
    for op in ops { repr_bytes(&to_repr(op), &mut buf); }
    format!("{}:{:016x}", ops.len(), crate::rng::fnv(&buf))
}
pub fn ops_hash(ops: &[Op]) -> u64 {
    let mut buf = Vec::new();
    for op in ops { repr_bytes(&to_repr(op), &mut buf); }
    crate::rng::fnv(&buf)
}

// ------------------------------------------------------------------------------------------------
// generation
// ------------------------------------------------------------------------------------------------

/// Every kind `serialize_ops` accepts (everything but InlineImage). Index 0 is the plainest.
pub const KINDS: [&str; 44] = [
    "Save", "Restore", "LineWidth", "MoveTo", "LineTo", "CurveTo", "Rect", "Close", "Stroke", "Fill", "FillAndStroke", "EndPath", "Clip",
    "Transform", "Dash", "LineJoin", "LineCap", "MiterLimit", "Flatness", "GraphicsState", "StrokeColor", "FillColor",
    "FillColorSpace", "StrokeColorSpace", "RenderingIntent", "Shade", "XObject",
    "BeginText", "EndText", "CharSpacing", "WordSpacing", "TextScaling", "Leading", "TextFont", "TextRenderMode", "TextRise",
    "MoveTextPosition", "SetTextMatrix", "TextNewline", "TextDraw", "TextDrawAdjusted",
    "BeginMarkedContent", "EndMarkedContent", "MarkedContentPoint",
];

#[derive(Clone, Copy, Debug)]
pub struct GenCfg {
    /// reals with |v| >= 2^31
    pub huge_reals: bool,
    /// -0, tiny, 2^24..2^31, random bit patterns
    pub odd_reals: bool,
    /// white space, delimiters, '#', backslash and control characters in names
    pub irregular_names: bool,
    /// characters above '~' in names
    pub nonascii_names: bool,
    pub empty_names: bool,
    /// strings over all byte values (otherwise printable ASCII without parentheses/backslash)
    pub any_strings: bool,
    /// property lists / colour operands other than what the specification lists (name or dictionary; numbers + name)
    pub nonstandard_prims: bool,
    /// bias towards the serializer's shorthand triggers
    pub shorthand_bias: bool,
    /// kinds (see KINDS) never generated
    pub exclude: &'static [&'static str],
}
impl GenCfg {
    /// the whole domain of C08
    pub const FULL: GenCfg = GenCfg { huge_reals: true, odd_reals: true, irregular_names: true, nonascii_names: true, empty_names: true,
        any_strings: true, nonstandard_prims: true, shorthand_bias: true, exclude: &[] };
    /// plain values only (small numbers, regular ASCII names, printable strings); all kinds, shorthand bias kept
    pub const PLAIN: GenCfg = GenCfg { huge_reals: false, odd_reals: false, irregular_names: false, nonascii_names: false, empty_names: false,
        any_strings: false, nonstandard_prims: false, shorthand_bias: true, exclude: &[] };
}

pub const TWO31: f32 = 2147483648.0;
const TINY: [f32; 7] = [1e-7, -1e-7, 1.5e-10, 0.00001, f32::MIN_POSITIVE, 1e-45, -3e-39];
const BIG: [f32; 7] = [16777216.0, 16777215.0, 1e9, 2147483520.0, -2147483648.0, 123456790.0, -99999990.0];
const HUGE: [f32; 9] = [2147483648.0, 3e9, -3e9, 4294967296.0, 1e10, -2147483904.0, 1e20, f32::MAX, f32::MIN];

pub fn gen_num(src: &mut Src, cfg: &GenCfg) -> f32 {
    let c = src.draw(16);
    match c {
        8..=10 => { src.label("frac"); let num = src.range(-2000, 2000) as f32; let den = *src.pick(&[2.0f32, 4.0, 8.0, 10.0, 100.0, 1000.0]); num / den }
        11 if cfg.odd_reals => { src.label("neg-zero"); -0.0 }
        12 if cfg.odd_reals => { src.label("tiny-real"); *src.pick(&TINY) }
        13 if cfg.odd_reals => { src.label("big-real"); *src.pick(&BIG) }
        14 if cfg.huge_reals => { src.label("real>=2^31"); *src.pick(&HUGE) }
        15 if cfg.odd_reals => {
            src.label("randbits");
            let mut b = src.u32full();
            if (b >> 23) & 0xff == 0xff { b &= !(1 << 30); }
            let v = f32::from_bits(b);
            if !cfg.huge_reals && v.abs() >= TWO31 { 1.0 } else { v }
        }
        _ => { let v = src.draw(21) as i32; if v <= 10 { v as f32 } else { -((v - 10) as f32) } }
    }
}
fn gen_point(src: &mut Src, cfg: &GenCfg) -> Point { Point { x: gen_num(src, cfg), y: gen_num(src, cfg) } }
fn gen_matrix(src: &mut Src, cfg: &GenCfg) -> Matrix {
    Matrix { a: gen_num(src, cfg), b: gen_num(src, cfg), c: gen_num(src, cfg), d: gen_num(src, cfg), e: gen_num(src, cfg), f: gen_num(src, cfg) }
}

const PLAIN_NAME_CHARS: &[u8] = b"ABCXYZabcxyz0123456789._-+*:;!$&'=?@^`|~,\"";
pub const IRREGULAR_NAME_CHARS: [char; 21] = [' ', '#', '(', ')', '/', '%', '<', '>', '[', ']', '{', '}', '\\', '\t', '\n', '\r', '\0', '\x0c', '\x01', '\x1f', '\x08'];
const NONASCII_NAME_CHARS: [char; 8] = ['é', '\u{7f}', '\u{80}', 'ß', '€', '漢', '\u{10FFFF}', '\u{a0}'];

pub fn is_irregular_name_char(c: char) -> bool { (c as u32) < 0x21 || "()<>[]{}/%#\\".contains(c) }

pub fn gen_name(src: &mut Src, cfg: &GenCfg) -> Name {
    if cfg.empty_names && src.draw(24) == 23 { src.label("name-empty"); return Name::from(""); }
    let len = 1 + src.draw(4) as usize;
    let mut s = String::new();
    for _ in 0..len {
        let c = src.draw(20);
        match c {
            18 if cfg.irregular_names => { src.label("name-irregular-char"); s.push(*src.pick(&IRREGULAR_NAME_CHARS)); }
            19 if cfg.nonascii_names => { src.label("name-non-ascii"); s.push(*src.pick(&NONASCII_NAME_CHARS)); }
            _ => s.push(*src.pick(PLAIN_NAME_CHARS) as char),
        }
    }
    Name::from(s.as_str())
}

/// a count that is small most of the time and now and then far beyond what ordinary content streams hold (operands of one
/// operator, elements of one array, bytes of one string), at and around powers of two
pub fn many(src: &mut Src, small: u32) -> usize {
    if src.draw(20) == 0 { src.label("many"); *src.pick(&[15usize, 16, 17, 31, 32, 33, 34, 63, 64, 65, 127, 128, 129, 255, 256, 257, 300, 1000, 2500]) } else { src.draw(small) as usize }
}
const PLAIN_STR_BYTES: &[u8] = b"a bcdefgXYZ0123456789 .,;:-_!?*+/<>[]{}%#'\"~";
pub fn gen_bytes(src: &mut Src, cfg: &GenCfg) -> Vec<u8> {
    let len = many(src, 7);
    let mut v = Vec::new();
    for _ in 0..len {
        let c = if cfg.any_strings { src.draw(16) } else { 0 };
        match c {
            10 => { src.label("string-paren"); v.push(*src.pick(b"()")); }
            11 => { src.label("string-backslash"); v.push(b'\\'); }
            12 => { src.label("string-ctrl"); v.push(*src.pick(b"\r\n\t\x08\x0c\x00\x1b\x7f")); }
            13 | 14 => { src.label("string-high-byte"); v.push(0x80 + src.draw(128) as u8); }
            15 => { src.label("string-any-byte"); v.push(src.byte()); }
            _ => v.push(*src.pick(PLAIN_STR_BYTES)),
        }
    }
    v
}
pub fn gen_string(src: &mut Src, cfg: &GenCfg) -> PdfString { pdf_string(&gen_bytes(src, cfg)) }

fn gen_int(src: &mut Src, cfg: &GenCfg) -> i32 {
    if cfg.odd_reals && src.draw(8) == 7 { *src.pick(&[i32::MAX, i32::MIN, 16777217, -16777217, 65536, 1000000007]) }
    else { let v = src.draw(41) as i32; if v <= 20 { v } else { 20 - v } }
}
fn gen_scalar(src: &mut Src, cfg: &GenCfg) -> Primitive {
    match src.draw(8) {
        0 | 1 => Primitive::Integer(gen_int(src, cfg)),
        2 => Primitive::Number(gen_num(src, cfg)),
        3 | 4 => Primitive::Name(gen_name(src, cfg).as_str().into()),
        5 => Primitive::String(gen_string(src, cfg)),
        6 => Primitive::Boolean(src.draw(2) == 1),
        _ => if cfg.nonstandard_prims && src.draw(3) == 0 { Primitive::Reference(PlainRef { id: 1 + src.draw(50) as u64, gen: src.draw(2) as u64 }) } else { Primitive::Null },
    }
}
pub fn gen_dict(src: &mut Src, cfg: &GenCfg, depth: u32) -> Dictionary {
    let mut d = Dictionary::new();
    let k = many(src, 4).min(300);
    let depth = if k > 4 { 0 } else { depth };
    for _ in 0..k {
        let key = gen_name(src, cfg);
        let val = gen_prim(src, cfg, depth);
        d.insert(key, val);
    }
    d
}
/// any primitive the serializer can write (no streams)
pub fn gen_prim(src: &mut Src, cfg: &GenCfg, depth: u32) -> Primitive {
    let c = if depth == 0 { 0 } else { src.draw(6) };
    match c {
        4 => { let k = many(src, 4); let d = if k > 4 { 0 } else { depth - 1 }; Primitive::Array((0..k).map(|_| gen_prim(src, cfg, d)).collect()) }
        5 => Primitive::Dictionary(gen_dict(src, cfg, depth - 1)),
        _ => gen_scalar(src, cfg),
    }
}
/// property list operand of BDC / DP: a name or a dictionary (anything else only with `nonstandard_prims`)
pub fn gen_props(src: &mut Src, cfg: &GenCfg) -> Primitive {
    match src.draw(8) {
        0..=2 => Primitive::Name(gen_name(src, cfg).as_str().into()),
        7 if cfg.nonstandard_prims => { src.label("props-nonstandard"); gen_prim(src, cfg, 2) }
        _ => Primitive::Dictionary(gen_dict(src, cfg, 2)),
    }
}
fn gen_color(src: &mut Src, cfg: &GenCfg) -> Color {
    match src.draw(4) {
        0 => Color::Gray(gen_num(src, cfg)),
        1 => Color::Rgb(Rgb { red: gen_num(src, cfg), green: gen_num(src, cfg), blue: gen_num(src, cfg) }),
        2 => Color::Cmyk(Cmyk { cyan: gen_num(src, cfg), magenta: gen_num(src, cfg), yellow: gen_num(src, cfg), key: gen_num(src, cfg) }),
        _ => {
            let k = many(src, 5);
            let mut v: Vec<Primitive> = (0..k).map(|_| if src.draw(3) == 0 { Primitive::Integer(gen_int(src, cfg)) } else { Primitive::Number(gen_num(src, cfg)) }).collect();
            match src.draw(6) {
                0 | 1 => v.push(Primitive::Name(gen_name(src, cfg).as_str().into())),
                5 if cfg.nonstandard_prims => { src.label("color-nonstandard"); v.push(gen_prim(src, cfg, 1)); }
                _ => {}
            }
            Color::Other(v)
        }
    }
}
fn gen_winding(src: &mut Src) -> Winding { if src.draw(2) == 1 { Winding::EvenOdd } else { Winding::NonZero } }

/// what generator, writer and reader may each believe the current point to be
#[derive(Default, Clone, Copy)]
pub struct PathState {
    /// point of the last m / l / c
    pub last: Option<Point>,
    /// current point as the specification defines it (also moved by re and h)
    pub spec: Option<Point>,
    pub start: Option<Point>,
}
impl PathState {
    pub fn track(&mut self, op: &Op) {
        match *op {
            Op::MoveTo { p } => { self.last = Some(p); self.spec = Some(p); self.start = Some(p); }
            Op::LineTo { p } | Op::CurveTo { p, .. } => { self.last = Some(p); self.spec = Some(p); }
            Op::Rect { rect } => { let p = Point { x: rect.x, y: rect.y }; self.spec = Some(p); self.start = Some(p); }
            Op::Close => { if self.start.is_some() { self.spec = self.start; } }
            _ => {}
        }
    }
}

fn gen_curve(src: &mut Src, cfg: &GenCfg, st: &PathState, force: u32) -> Op {
    let mut c1 = gen_point(src, cfg);
    let mut c2 = gen_point(src, cfg);
    let p = gen_point(src, cfg);
    let mode = if force > 0 { force } else { src.draw(8) };
    match mode {
        3 | 4 => if let Some(l) = st.last { src.label("c1=last"); c1 = l; },
        5 => { src.label("c2=p"); c2 = p; }
        6 => { if let Some(l) = st.last { c1 = l; } src.label("c1=last,c2=p"); c2 = p; }
        7 => if let Some(l) = st.spec { src.label("c1=spec-current-point"); c1 = l; },
        _ => {}
    }
    Op::CurveTo { c1, c2, p }
}

/// one operation of the given kind (index into KINDS)
pub fn gen_op(src: &mut Src, cfg: &GenCfg, kind: usize, st: &PathState) -> Op {
    match KINDS[kind % KINDS.len()] {
        "Save" => Op::Save,
        "Restore" => Op::Restore,
        "LineWidth" => Op::LineWidth { width: gen_num(src, cfg) },
        "MoveTo" => Op::MoveTo { p: gen_point(src, cfg) },
        "LineTo" => Op::LineTo { p: gen_point(src, cfg) },
        "CurveTo" => gen_curve(src, cfg, st, 0),
        "Rect" => Op::Rect { rect: ViewRect { x: gen_num(src, cfg), y: gen_num(src, cfg), width: gen_num(src, cfg), height: gen_num(src, cfg) } },
        "Close" => Op::Close,
        "Stroke" => Op::Stroke,
        "Fill" => Op::Fill { winding: gen_winding(src) },
        "FillAndStroke" => Op::FillAndStroke { winding: gen_winding(src) },
        "EndPath" => Op::EndPath,
        "Clip" => Op::Clip { winding: gen_winding(src) },
        "Transform" => Op::Transform { matrix: gen_matrix(src, cfg) },
        "Dash" => { let k = many(src, 5); Op::Dash { pattern: (0..k).map(|_| gen_num(src, cfg)).collect(), phase: gen_num(src, cfg) } }
        "LineJoin" => Op::LineJoin { join: [LineJoin::Miter, LineJoin::Round, LineJoin::Bevel][src.draw(3) as usize] },
        "LineCap" => Op::LineCap { cap: [LineCap::Butt, LineCap::Round, LineCap::Square][src.draw(3) as usize] },
        "MiterLimit" => Op::MiterLimit { limit: gen_num(src, cfg) },
        "Flatness" => Op::Flatness { tolerance: gen_num(src, cfg) },
        "GraphicsState" => Op::GraphicsState { name: gen_name(src, cfg) },
        "StrokeColor" => Op::StrokeColor { color: gen_color(src, cfg) },
        "FillColor" => Op::FillColor { color: gen_color(src, cfg) },
        "FillColorSpace" => Op::FillColorSpace { name: gen_name(src, cfg) },
        "StrokeColorSpace" => Op::StrokeColorSpace { name: gen_name(src, cfg) },
        "RenderingIntent" => Op::RenderingIntent { intent: [RenderingIntent::RelativeColorimetric, RenderingIntent::AbsoluteColorimetric,
            RenderingIntent::Perceptual, RenderingIntent::Saturation][src.draw(4) as usize] },
        "Shade" => Op::Shade { name: gen_name(src, cfg) },
        "XObject" => Op::XObject { name: gen_name(src, cfg) },
        "BeginText" => Op::BeginText,
        "EndText" => Op::EndText,
        "CharSpacing" => Op::CharSpacing { char_space: gen_num(src, cfg) },
        "WordSpacing" => Op::WordSpacing { word_space: gen_num(src, cfg) },
        "TextScaling" => Op::TextScaling { horiz_scale: gen_num(src, cfg) },
        "Leading" => Op::Leading { leading: gen_num(src, cfg) },
        "TextFont" => Op::TextFont { name: gen_name(src, cfg), size: gen_num(src, cfg) },
        "TextRenderMode" => Op::TextRenderMode { mode: [TextMode::Fill, TextMode::Stroke, TextMode::FillThenStroke, TextMode::Invisible,
            TextMode::FillAndClip, TextMode::StrokeAndClip, TextMode::FillThenStrokeAndClip, TextMode::Clip][src.draw(8) as usize] },
        "TextRise" => Op::TextRise { rise: gen_num(src, cfg) },
        "MoveTextPosition" => Op::MoveTextPosition { translation: gen_point(src, cfg) },
        "SetTextMatrix" => Op::SetTextMatrix { matrix: gen_matrix(src, cfg) },
        "TextNewline" => Op::TextNewline,
        "TextDraw" => Op::TextDraw { text: gen_string(src, cfg) },
        "TextDrawAdjusted" => {
            let k = many(src, 5);
            Op::TextDrawAdjusted { array: (0..k).map(|_| if src.draw(2) == 0 { TextDrawAdjusted::Text(gen_string(src, cfg)) } else { TextDrawAdjusted::Spacing(gen_num(src, cfg)) }).collect() }
        }
        "BeginMarkedContent" => Op::BeginMarkedContent { tag: gen_name(src, cfg), properties: if src.draw(2) == 0 { None } else { Some(gen_props(src, cfg)) } },
        "EndMarkedContent" => Op::EndMarkedContent,
        "MarkedContentPoint" => Op::MarkedContentPoint { tag: gen_name(src, cfg), properties: if src.draw(2) == 0 { None } else { Some(gen_props(src, cfg)) } },
        _ => Op::Save,
    }
}

fn kind_index(k: &str) -> usize { KINDS.iter().position(|x| *x == k).unwrap_or(0) }

/// a neutral operation that may sit between the members of a shorthand pattern
fn filler(src: &mut Src, cfg: &GenCfg, st: &PathState) -> Op {
    let k = *src.pick(&["LineWidth", "Save", "GraphicsState", "FillColor", "TextRise"]);
    gen_op(src, cfg, kind_index(k), st)
}

/// a group of operations built to hit (or narrowly miss) one of the serializer's look-ahead shorthands
fn gen_pattern(src: &mut Src, cfg: &GenCfg, st: &PathState, out: &mut Vec<Op>) {
    match src.draw(14) {
        0 => { src.label("pat:Close+Stroke"); out.push(Op::Close); out.push(Op::Stroke); }
        1 => { src.label("pat:Close+FillAndStroke"); out.push(Op::Close); out.push(Op::FillAndStroke { winding: gen_winding(src) }); }
        2 => { src.label("pat:TextNewline+TextDraw"); out.push(Op::TextNewline); out.push(Op::TextDraw { text: gen_string(src, cfg) }); }
        3 => {
            src.label("pat:Tw+Tc+T*+Tj");
            out.push(Op::WordSpacing { word_space: gen_num(src, cfg) });
            out.push(Op::CharSpacing { char_space: gen_num(src, cfg) });
            out.push(Op::TextNewline);
            out.push(Op::TextDraw { text: gen_string(src, cfg) });
        }
        4 => {
            src.label("pat:Tw+Tc+near-miss");
            out.push(Op::WordSpacing { word_space: gen_num(src, cfg) });
            out.push(Op::CharSpacing { char_space: gen_num(src, cfg) });
            match src.draw(3) {
                0 => out.push(Op::TextNewline),
                1 => out.push(Op::TextDraw { text: gen_string(src, cfg) }),
                _ => { out.push(Op::TextNewline); out.push(Op::TextNewline); out.push(Op::TextDraw { text: gen_string(src, cfg) }); }
            }
        }
        5 => {
            src.label("pat:Leading+Td(ty=-l)");
            let l = gen_num(src, cfg);
            out.push(Op::Leading { leading: l });
            out.push(Op::MoveTextPosition { translation: Point { x: gen_num(src, cfg), y: -l } });
        }
        6 => {
            src.label("pat:Leading+Td(tx=-l)");
            let l = gen_num(src, cfg);
            out.push(Op::Leading { leading: l });
            out.push(Op::MoveTextPosition { translation: Point { x: -l, y: gen_num(src, cfg) } });
        }
        7 => {
            src.label("pat:Leading+Td");
            let l = gen_num(src, cfg);
            out.push(Op::Leading { leading: l });
            let t = match src.draw(3) { 0 => Point { x: -l, y: -l }, 1 => Point { x: l, y: l }, _ => gen_point(src, cfg) };
            out.push(Op::MoveTextPosition { translation: t });
        }
        8 | 9 => {
            src.label("pat:point+curve");
            let mut s = *st;
            let first = if src.draw(2) == 0 { Op::MoveTo { p: gen_point(src, cfg) } } else { Op::LineTo { p: gen_point(src, cfg) } };
            s.track(&first); out.push(first);
            if src.draw(3) == 2 { out.push(filler(src, cfg, &s)); }
            let force = *src.pick(&[3u32, 3, 6, 5, 1]);
            let c = gen_curve(src, cfg, &s, force);
            out.push(c);
        }
        10 => {
            src.label("pat:curve+curve");
            let mut s = *st;
            let force = *src.pick(&[1u32, 3, 5]);
            let a = gen_curve(src, cfg, &s, force);
            s.track(&a); out.push(a);
            let force = *src.pick(&[3u32, 6, 5]);
            let b = gen_curve(src, cfg, &s, force);
            out.push(b);
        }
        11 => {
            src.label("pat:re/h+curve");
            let mut s = *st;
            if src.draw(2) == 0 {
                let r = Op::Rect { rect: ViewRect { x: gen_num(src, cfg), y: gen_num(src, cfg), width: gen_num(src, cfg), height: gen_num(src, cfg) } };
                s.track(&r); out.push(r);
            } else {
                for o in [Op::MoveTo { p: gen_point(src, cfg) }, Op::LineTo { p: gen_point(src, cfg) }, Op::Close] { s.track(&o); out.push(o); }
            }
            let force = *src.pick(&[7u32, 3]);
            let c = gen_curve(src, cfg, &s, force);
            out.push(c);
        }
        12 => {
            src.label("pat:point+paint+curve");
            let mut s = *st;
            let m = Op::MoveTo { p: gen_point(src, cfg) };
            s.track(&m); out.push(m);
            out.push(match src.draw(3) { 0 => Op::Stroke, 1 => Op::EndPath, _ => Op::Fill { winding: gen_winding(src) } });
            let c = gen_curve(src, cfg, &s, 3);
            out.push(c);
        }
        _ => {
            src.label("pat:Close+Close+Stroke");
            out.push(Op::Close); out.push(Op::Close);
            out.push(match src.draw(3) { 0 => Op::Stroke, 1 => Op::FillAndStroke { winding: gen_winding(src) }, _ => Op::Fill { winding: gen_winding(src) } });
        }
    }
}

/// Sequence of at most `max` operations over every variant `serialize_ops` accepts.
pub fn gen_ops_cfg(src: &mut Src, max: usize, cfg: &GenCfg) -> Vec<Op> {
    let steps = src.draw(max as u32 + 1) as usize;
    let mut out: Vec<Op> = Vec::new();
    let mut st = PathState::default();
    for _ in 0..steps {
        if out.len() >= max { break; }
        let before = out.len();
        if cfg.shorthand_bias && src.draw(10) >= 6 {
            gen_pattern(src, cfg, &st, &mut out);
        } else {
            let k = src.draw(KINDS.len() as u32) as usize;
            let op = gen_op(src, cfg, k, &st);
            out.push(op);
        }
        if !cfg.exclude.is_empty() {
            let mut i = before;
            while i < out.len() { if cfg.exclude.contains(&to_repr(&out[i]).kind) { out.remove(i); } else { i += 1; } }
        }
        for o in &out[before..] { st.track(o); }
    }
    out.truncate(max);
    out
}
pub fn gen_ops(src: &mut Src, max: usize) -> Vec<Op> { gen_ops_cfg(src, max, &GenCfg::FULL) }

// ------------------------------------------------------------------------------------------------
// labels of the values present in a (minimised) sequence
// ------------------------------------------------------------------------------------------------

fn num_features(v: f32, out: &mut BTreeSet<&'static str>) {
    let a = v.abs();
    if v == 0.0 { if v.is_sign_negative() { out.insert("neg-zero"); } return; }
    // sign and fractional part are not "exotic": a minimised case keeps them only when they matter, and the
    // witness shows them; the vocabulary names boundary classes only
    if a >= TWO31 { out.insert("real>=2^31"); }
    else if a >= 16777216.0 { out.insert("big-real"); }
    else if a < 1e-4 { out.insert("tiny-real"); }
}
fn name_features(s: &str, out: &mut BTreeSet<&'static str>) {
    if s.is_empty() { out.insert("name-empty"); }
    if s.chars().any(is_irregular_name_char) { out.insert("name-irregular-char"); }
    if s.chars().any(|c| c > '~') { out.insert("name-non-ascii"); }
}
fn str_features(b: &[u8], out: &mut BTreeSet<&'static str>) {
    for &c in b {
        match c {
            0x80..=0xff => { out.insert("string-high-byte"); }
            b'\r' | b'\n' => { out.insert("string-eol"); }
            b'(' | b')' => { out.insert("string-paren"); }
            b'\\' => { out.insert("string-backslash"); }
            0..=0x1f | 0x7f => { out.insert("string-ctrl"); }
            _ => {}
        }
    }
}
fn prim_features(p: &Primitive, out: &mut BTreeSet<&'static str>) {
    match p {
        Primitive::Integer(i) => { if i.unsigned_abs() > 16777216 { out.insert("big-int"); } }
        Primitive::Number(x) => num_features(*x, out),
        Primitive::Name(s) => name_features(s.as_str(), out),
        Primitive::String(s) => { out.insert("prim-string"); str_features(s.as_bytes(), out); }
        Primitive::Array(a) => { out.insert("prim-array"); for e in a { prim_features(e, out); } }
        Primitive::Dictionary(d) => { out.insert("prim-dict"); for (k, v) in d.iter() { name_features(k.as_str(), out); prim_features(v, out); } }
        Primitive::Boolean(_) => { out.insert("prim-bool"); }
        Primitive::Null => { out.insert("prim-null"); }
        Primitive::Reference(_) => { out.insert("prim-ref"); }
        Primitive::Stream(_) => { out.insert("prim-stream"); }
    }
}
fn val_features(v: &Val, out: &mut BTreeSet<&'static str>) {
    match v {
        Val::Num(x) => num_features(*x, out),
        Val::Name(s) => name_features(s, out),
        Val::Str(b) => str_features(b, out),
        Val::Prim(p) => prim_features(p, out),
        Val::List(l) => for e in l { val_features(e, out) },
        Val::Absent | Val::Tag(_) => {}
    }
}
/// exotic value classes present in the sequence (stable vocabulary, for signatures)
pub fn features(reprs: &[Repr]) -> BTreeSet<&'static str> {
    let mut out = BTreeSet::new();
    for r in reprs { for v in &r.f { val_features(v, &mut out); } }
    out
}

// ------------------------------------------------------------------------------------------------
// op-level minimisation
// ------------------------------------------------------------------------------------------------

fn canon_tag(t: &'static str) -> Option<&'static str> {
    let c = match t {
        "EvenOdd" => "NonZero",
        x if x.starts_with("J.") => JOINS[0],
        x if x.starts_with("C.") => CAPS[0],
        x if x.starts_with("M.") => MODES[0],
        x if x.starts_with("I.") => INTENTS[0],
        _ => return None,
    };
    if c == t { None } else { Some(c) }
}
fn name_cands(s: &str) -> Vec<String> {
    let mut out = Vec::new();
    if s != "A" { out.push("A".to_string()); }
    let chars: Vec<char> = s.chars().collect();
    if chars.len() > 1 {
        for i in 0..chars.len() { out.push(chars.iter().enumerate().filter(|(j, _)| *j != i).map(|(_, c)| *c).collect()); }
    }
    for i in 0..chars.len() {
        let rep = if chars[i] > '~' && chars[i] != 'é' { Some('é') } else if is_irregular_name_char(chars[i]) && chars[i] != ' ' { Some(' ') }
            else if !is_irregular_name_char(chars[i]) && chars[i] <= '~' && chars[i] != 'A' { Some('A') } else { None };
        if let Some(r) = rep { let mut c = chars.clone(); c[i] = r; out.push(c.into_iter().collect()); }
    }
    out
}
fn bytes_cands(b: &[u8]) -> Vec<Vec<u8>> {
    let mut out = Vec::new();
    if !b.is_empty() { out.push(Vec::new()); }
    if b.len() > 1 { for i in 0..b.len().min(12) { let mut c = b.to_vec(); c.remove(i); out.push(c); } }
    for i in 0..b.len().min(12) {
        let rep = match b[i] { 0x81..=0xff => Some(0x80u8), b'a' => None, 0x20..=0x7e if !b"()\\".contains(&b[i]) => Some(b'a'), _ => None };
        if let Some(r) = rep { let mut c = b.to_vec(); c[i] = r; out.push(c); }
    }
    out
}
fn num_cands(v: f32) -> Vec<f32> {
    let mut out = Vec::new();
    if v == 0.0 { if v.is_sign_negative() { out.push(0.0); } return out; }
    out.push(0.0);
    if v != 1.0 { out.push(1.0); }
    if v < 0.0 && v != -1.0 { out.push(-1.0); }
    if v.abs() > 2.0 && v.abs() < 16777216.0 && v.fract() != 0.0 { out.push(v.trunc()); }
    if v.abs() >= TWO31 && v.abs() != TWO31 { out.push(TWO31.copysign(v)); }
    if v < 0.0 { out.push(-v); }
    out
}
fn prim_cands(p: &Primitive) -> Vec<Primitive> {
    let mut out = Vec::new();
    match p {
        Primitive::Integer(0) => {}
        Primitive::Integer(i) => { out.push(Primitive::Integer(0)); if *i != 1 { out.push(Primitive::Integer(1)); } }
        Primitive::Number(x) => { out.push(Primitive::Integer(0)); for c in num_cands(*x) { out.push(Primitive::Number(c)); } }
        Primitive::Name(s) => { out.push(Primitive::Integer(0)); for c in name_cands(s.as_str()) { out.push(Primitive::Name(c.as_str().into())); } }
        Primitive::String(s) => { out.push(Primitive::Integer(0)); for c in bytes_cands(s.as_bytes()) { out.push(Primitive::String(pdf_string(&c))); } }
        Primitive::Array(a) => {
            out.push(Primitive::Integer(0));
            for e in a { out.push(e.clone()); }
            for i in 0..a.len() { let mut c = a.clone(); c.remove(i); out.push(Primitive::Array(c)); }
            for i in 0..a.len() { for e in prim_cands(&a[i]) { let mut c = a.clone(); c[i] = e; out.push(Primitive::Array(c)); } }
        }
        Primitive::Dictionary(d) => {
            out.push(Primitive::Integer(0));
            for (_, v) in d.iter() { out.push(v.clone()); }
            let items: Vec<(Name, Primitive)> = d.iter().map(|(k, v)| (k.clone(), v.clone())).collect();
            let build = |items: &[(Name, Primitive)]| { let mut n = Dictionary::new(); for (k, v) in items { n.insert(k.clone(), v.clone()); } Primitive::Dictionary(n) };
            for i in 0..items.len() { let mut c = items.clone(); c.remove(i); out.push(build(&c)); }
            for i in 0..items.len() {
                for k in name_cands(items[i].0.as_str()) { let mut c = items.clone(); c[i].0 = Name::from(k.as_str()); out.push(build(&c)); }
                for e in prim_cands(&items[i].1) { let mut c = items.clone(); c[i].1 = e; out.push(build(&c)); }
            }
        }
        _ => out.push(Primitive::Integer(0)),
    }
    out
}
fn val_cands(v: &Val) -> Vec<Val> {
    match v {
        Val::Num(x) => num_cands(*x).into_iter().map(Val::Num).collect(),
        Val::Name(s) => name_cands(s).into_iter().map(Val::Name).collect(),
        Val::Str(b) => bytes_cands(b).into_iter().map(Val::Str).collect(),
        Val::Prim(p) => prim_cands(p).into_iter().map(Val::Prim).collect(),
        Val::Tag(t) => canon_tag(t).into_iter().map(Val::Tag).collect(),
        Val::Absent => vec![],
        Val::List(l) => {
            let mut out = Vec::new();
            for i in 0..l.len() { let mut c = l.clone(); c.remove(i); out.push(Val::List(c)); }
            for i in 0..l.len() { for e in val_cands(&l[i]) { let mut c = l.clone(); c[i] = e; out.push(Val::List(c)); } }
            out
        }
    }
}
fn map_nums(v: &mut Val, f: &impl Fn(f32) -> f32) {
    match v {
        Val::Num(x) => *x = f(*x),
        Val::List(l) => for e in l { map_nums(e, f) },
        _ => {}
    }
}
fn collect_mags(v: &Val, out: &mut Vec<u32>) {
    match v {
        Val::Num(x) => { let m = x.abs().to_bits(); if !out.contains(&m) { out.push(m); } }
        Val::List(l) => for e in l { collect_mags(e, out) },
        _ => {}
    }
}

/// Delta-debug a failing sequence at operation level: remove operations, then simplify operand values
/// (coupled equal / negated numbers are changed together), as long as `fails` keeps holding.
/// `fails` is called at most `budget` times. The input must itself fail.
pub fn minimise_ops(ops: &[Op], mut fails: impl FnMut(&[Op]) -> bool, budget: usize) -> Vec<Op> {
    let mut cur: Vec<Repr> = ops.iter().map(to_repr).collect();
    let mut calls = 0usize;
    let mut test = |cand: &[Repr], calls: &mut usize| -> bool {
        if *calls >= budget { return false; }
        let built: Option<Vec<Op>> = cand.iter().map(from_repr).collect();
        let Some(built) = built else { return false };
        *calls += 1;
        fails(&built)
    };
    for _round in 0..8 {
        let mut changed = false;
        // removal of chunks
        let mut k = (cur.len() / 2).max(1);
        loop {
            let mut i = 0;
            while i + k <= cur.len() && cur.len() > 1 {
                let mut cand = cur.clone();
                cand.drain(i..i + k);
                if !cand.is_empty() && test(&cand, &mut calls) { cur = cand; changed = true; } else { i += k; }
            }
            if k == 1 { break; }
            k /= 2;
        }
        // coupled numbers: all numbers of one magnitude together
        let mut mags = Vec::new();
        for r in &cur { for v in &r.f { collect_mags(v, &mut mags); } }
        for m in mags {
            let mval = f32::from_bits(m);
            let small_int = mval <= 5.0 && mval.fract() == 0.0;
            for cand_mag in [0.0f32, 1.0, 2.0, 3.0, 4.0, 5.0] {
                if small_int && cand_mag >= mval { break; }
                let mut cand = cur.clone();
                let f = |x: f32| if x.abs().to_bits() == m { if cand_mag == 0.0 { 0.0 } else { cand_mag.copysign(x) } } else { x };
                for r in cand.iter_mut() { for v in r.f.iter_mut() { map_nums(v, &f); } }
                if test(&cand, &mut calls) { cur = cand; changed = true; break; }
            }
        }
        // single fields
        for i in 0..cur.len() {
            for j in 0..cur[i].f.len() {
                loop {
                    let mut accepted = false;
                    for c in val_cands(&cur[i].f[j]) {
                        let mut cand = cur.clone();
                        cand[i].f[j] = c;
                        if test(&cand, &mut calls) { cur = cand; accepted = true; changed = true; break; }
                    }
                    if !accepted { break; }
                }
            }
        }
        if !changed || calls >= budget { break; }
    }
    cur.iter().filter_map(from_repr).collect()
}

/// sorted kinds of the sequence joined with the value features still present: "Leading+MoveTextPosition+frac"
pub fn label_set(ops: &[Op], with_kinds: bool) -> String {
    let reprs: Vec<Repr> = ops.iter().map(to_repr).collect();
    let mut parts: BTreeSet<String> = BTreeSet::new();
    if with_kinds { for r in &reprs { parts.insert(kind_of(r)); } }
    let mut v: Vec<String> = parts.into_iter().collect();
    for f in features(&reprs) { v.push(f.to_string()); }
    v.join("+")
}
