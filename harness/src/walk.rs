//! The "everything reachable through the public read interface" walker shared by C01 / C14 (and others).
//! Every library call goes through `call`, which records the entry point (for crash attribution),
//! catches panics and counts outcomes.
use crate::panicmon::{guard, PanicRec};
use pdf::primitive::{PdfString, Date};
use pdf::any::AnySync;
use pdf::backend::Backend;
use pdf::content::Op;
use pdf::error::PdfError;
use pdf::file::{Cache, File, Log, ScanItem};
use pdf::font::{Font, FontData};
use pdf::object::*;
use pdf::primitive::{Dictionary, Primitive};
use std::collections::{BTreeMap, HashSet};
use std::sync::atomic::{AtomicUsize, Ordering};
use std::sync::Arc;

pub static ENTRY: AtomicUsize = AtomicUsize::new(0);
pub const ENTRIES: [&str; 52] = [
    "idle", "load", "version", "num_pages", "get_page", "pages_iter", "media_box", "crop_box", "page_resources", "contents_operations",
    "annotations_load", "font_load", "font_widths", "widths_get", "font_to_unicode", "font_embedded_data", "font_encoding", "xobject_get",
    "raw_image_data", "image_data", "form_operations", "form_resources", "pattern_get", "gs_font_get", "names_walk", "page_labels_walk",
    "outline_get", "forms_field_get", "metadata_data", "resolve_n", "get_dictionary", "get_stream_data", "get_pagesnode", "get_font",
    "get_xobject", "get_objectstream", "function_from_primitive", "function_apply", "colorspace_from_primitive", "scan", "dests", "struct_tree",
    "appearance", "embedded_files_walk", "cid_to_gid", "catalog", "trailer", "import_clone_page", "import_build", "import_reload", "text_strings", "other",
];
pub fn entry_id(name: &str) -> usize { ENTRIES.iter().position(|e| *e == name).unwrap_or(ENTRIES.len() - 1) }

#[derive(Default)]
pub struct WalkStats {
    pub calls: BTreeMap<&'static str, (u64, u64, u64)>, // entry -> (ok, err, panic)
    pub panics: Vec<(String, PanicRec)>,                 // (entry, record)
    pub ops_seen: u64,
    pub budget: u64, // max number of calls
    pub n_calls: u64,
}
impl WalkStats {
    pub fn new() -> Self { WalkStats { budget: 20_000, ..Default::default() } }
    pub fn exhausted(&self) -> bool { self.n_calls >= self.budget }
}

/// call returning Result
pub fn call<T>(w: &mut WalkStats, entry: &'static str, f: impl FnOnce() -> Result<T, PdfError>) -> Option<T> {
    w.n_calls += 1;
    ENTRY.store(entry_id(entry), Ordering::Relaxed);
    let r = guard(f);
    ENTRY.store(0, Ordering::Relaxed);
    let e = w.calls.entry(entry).or_insert((0, 0, 0));
    match r {
        Ok(Ok(v)) => { e.0 += 1; Some(v) }
        Ok(Err(_)) => { e.1 += 1; None }
        Err(p) => { e.2 += 1; if w.panics.len() < 20 { w.panics.push((entry.to_string(), p)); } None }
    }
}
/// call returning a plain value
pub fn call_v<T>(w: &mut WalkStats, entry: &'static str, f: impl FnOnce() -> T) -> Option<T> { call(w, entry, || Ok(f())) }

fn collect_strings<'a>(p: &'a Primitive, out: &mut Vec<&'a PdfString>, depth: usize) {
    if depth > 6 || out.len() >= 32 { return; }
    match p {
        Primitive::String(s) => out.push(s),
        Primitive::Array(a) => for x in a.iter().take(64) { collect_strings(x, out, depth + 1); },
        Primitive::Dictionary(d) => for (_, x) in d.iter().take(64) { collect_strings(x, out, depth + 1); },
        Primitive::Stream(s) => for (_, x) in s.info.iter().take(64) { collect_strings(x, out, depth + 1); },
        _ => {}
    }
}

fn walk_font(font: &Font, res: &impl Resolve, w: &mut WalkStats) {
    if let Some(Some(widths)) = call(w, "font_widths", || font.widths(res)) {
        for c in [0usize, 1, 31, 32, 65, 255, 256, 65535, 65536, 1 << 20] { call_v(w, "widths_get", || widths.get(c)); }
    }
    if let Some(Some(r)) = call_v(w, "font_to_unicode", || font.to_unicode(res)) {
        if let Some(map) = call(w, "font_to_unicode", || r) { let _ = call_v(w, "font_to_unicode", || map.iter().take(1000).count()); }
    }
    if let Some(Some(r)) = call_v(w, "font_embedded_data", || font.embedded_data(res)) { let _ = call(w, "font_embedded_data", || r.map(|d| d.len())); }
    call_v(w, "font_encoding", || font.encoding().map(|e| format!("{:?}", e.base)));
    call_v(w, "cid_to_gid", || font.cid_to_gid_map().is_some());
    if let FontData::Type0(ref t0) = font.data { call_v(w, "font_load", || t0.descendant_fonts.len()); }
}

fn walk_resources(r: &Resources, res: &impl Resolve, w: &mut WalkStats, depth: u32, seen: &mut HashSet<u64>) {
    if depth > 3 || w.exhausted() { return; }
    for (_, lf) in r.fonts.iter().take(40) {
        if let Some(f) = call(w, "font_load", || lf.load(res)) { walk_font(&f, res, w); }
    }
    for (_, xr) in r.xobjects.iter().take(40) {
        let id = xr.get_inner().id;
        if !seen.insert(id) { continue; }
        if let Some(x) = call(w, "xobject_get", || res.get(*xr)) {
            match &*x {
                XObject::Image(img) => {
                    call(w, "raw_image_data", || img.raw_image_data(res).map(|(d, _)| d.len()));
                    call(w, "image_data", || img.image_data(res).map(|d| d.len()));
                }
                XObject::Form(form) => {
                    if let Some(ops) = call(w, "form_operations", || form.operations(res)) { w.ops_seen += ops.len() as u64; }
                    if let Some(Some(fr)) = call_v(w, "form_resources", || form.dict().resources.clone()) { walk_resources(&fr, res, w, depth + 1, seen); }
                }
                XObject::Postscript(_) => {}
            }
        }
    }
    for (_, pr) in r.pattern.iter().take(20) {
        let id = pr.get_inner().id;
        if !seen.insert(id | 1 << 40) { continue; }
        if let Some(p) = call(w, "pattern_get", || res.get(*pr)) {
            let rr = p.dict().resources;
            if let Some(pres) = call(w, "pattern_get", || res.get(rr)) { walk_resources(&pres, res, w, depth + 1, seen); }
        }
    }
    for (_, gs) in r.graphics_states.iter().take(20) {
        if let Some((fr, _)) = gs.font { if let Some(f) = call(w, "gs_font_get", || res.get(fr)) { walk_font(&f, res, w); } }
    }
    for (_, cs) in r.color_spaces.iter().take(20) { call_v(w, "colorspace_from_primitive", || format!("{:?}", cs).len()); }
}

fn walk_ops(ops: &[Op], w: &mut WalkStats) { w.ops_seen += ops.len() as u64; }

pub fn walk<B, OC, SC, L>(f: &File<B, OC, SC, L>, w: &mut WalkStats, deep: bool)
where
    B: Backend,
    OC: Cache<Result<AnySync, Arc<PdfError>>>,
    SC: Cache<Result<Arc<[u8]>, Arc<PdfError>>>,
    L: Log,
{
    let res = f.resolver();
    call(w, "version", || f.version());
    call_v(w, "trailer", || (f.trailer.size, f.trailer.id.len(), f.trailer.info_dict.as_ref().map(|i| format!("{:?}", i).len())));
    let np = call_v(w, "num_pages", || f.num_pages()).unwrap_or(0);
    let mut seen = HashSet::new();
    for i in (0..np.min(48)).chain([np, np.wrapping_add(1), u32::MAX]) {
        if w.exhausted() { break; }
        if let Some(page) = call(w, "get_page", || f.get_page(i)) {
            call(w, "media_box", || page.media_box());
            call(w, "crop_box", || page.crop_box());
            if let Some(r) = call(w, "page_resources", || page.resources().map(|r| r.clone())) { walk_resources(&r, &res, w, 0, &mut seen); }
            if let Some(c) = &page.contents { if let Some(ops) = call(w, "contents_operations", || c.operations(&res)) { walk_ops(&ops, w); } }
            if let Some(annots) = call(w, "annotations_load", || page.annotations.load(&res)) {
                for a in annots.iter().take(20) {
                    if let Some(ap) = &a.appearance_streams {
                        let n = ap.normal;
                        if let Some(e) = call(w, "appearance", || res.get(n)) {
                            if let AppearanceStreamEntry::Single(form) = &*e { call(w, "form_operations", || form.operations(&res).map(|o| o.len())); }
                        }
                    }
                }
            }
        }
    }
    if deep { let _ = call_v(w, "pages_iter", || f.pages().take(64).filter(|p| p.is_ok()).count()); }
    // catalog level
    let cat = f.get_root();
    if let Some(names) = &cat.names {
        macro_rules! tree { ($t:expr, $e:expr) => { if let Some(t) = $t { let mut n = 0u32; call(w, $e, || t.walk(&res, &mut |_, _| { n += 1; })); } } }
        tree!(&names.pages, "names_walk"); tree!(&names.dests, "names_walk"); tree!(&names.ap, "names_walk"); tree!(&names.javascript, "names_walk");
        tree!(&names.templates, "names_walk"); tree!(&names.ids, "names_walk"); tree!(&names.urls, "names_walk"); tree!(&names.embedded_files, "embedded_files_walk");
    }
    if let Some(pl) = &cat.page_labels { let mut n = 0u32; call(w, "page_labels_walk", || pl.walk(&res, &mut |_, _| { n += 1; })); }
    if let Some(d) = &cat.dests { call_v(w, "dests", || d.len()); }
    if let Some(o) = &cat.outlines {
        // my own traversal keeps a visited set so my code cannot loop
        let mut visited = HashSet::new();
        let mut stack: Vec<Ref<OutlineItem>> = o.first.into_iter().collect();
        while let Some(r) = stack.pop() {
            if !visited.insert(r.get_inner().id) || visited.len() > 200 || w.exhausted() { continue; }
            if let Some(it) = call(w, "outline_get", || res.get(r)) { if let Some(n) = it.next { stack.push(n); } if let Some(c) = it.first { stack.push(c); } }
        }
    }
    if let Some(forms) = &cat.forms {
        let mut visited = HashSet::new();
        let mut stack: Vec<Ref<FieldDictionary>> = forms.fields.iter().map(|f| f.get_ref()).collect();
        while let Some(r) = stack.pop() {
            if !visited.insert(r.get_inner().id) || visited.len() > 200 || w.exhausted() { continue; }
            if let Some(fd) = call(w, "forms_field_get", || res.get(r)) { for k in fd.kids.iter() { stack.push(*k); } }
        }
        if let Some(dr) = &forms.dr { walk_resources(dr, &res, w, 1, &mut seen); }
    }
    if let Some(st) = &cat.struct_tree_root { call_v(w, "struct_tree", || st.children.len()); }
    if let Some(m) = cat.metadata { if let Some(s) = call(w, "metadata_data", || res.get(m)) { call(w, "metadata_data", || (**s.data()).data(&res).map(|d| d.len())); } }
    // raw objects by number
    let size = (f.trailer.size.max(0) as u64).min(if deep { 4096 } else { 300 });
    for n in 0..size + 2 {
        if w.exhausted() { break; }
        let r = PlainRef { id: n, gen: 0 };
        let p = call(w, "resolve_n", || res.resolve(r));
        if !deep && n > 64 { continue; }
        call(w, "get_dictionary", || res.get::<Dictionary>(Ref::new(r)).map(|d| d.len()));
        if let Some(s) = call(w, "get_stream_data", || res.get::<Stream<()>>(Ref::new(r))) { call(w, "get_stream_data", || (**s.data()).data(&res).map(|d| d.len())); }
        call(w, "get_pagesnode", || res.get::<PagesNode>(Ref::new(r)).map(|_| ()));
        if let Some(font) = call(w, "get_font", || res.get::<Font>(Ref::new(r))) { walk_font(&font, &res, w); }
        if let Some(x) = call(w, "get_xobject", || res.get::<XObject>(Ref::new(r))) {
            if let XObject::Image(img) = &*x { call(w, "image_data", || img.image_data(&res).map(|d| d.len())); }
        }
        call(w, "get_objectstream", || res.get::<ObjectStream>(Ref::new(r)).map(|o| o.n_objects()));
        if let Some(p) = p {
            if matches!(p, Primitive::Dictionary(_) | Primitive::Stream(_)) {
                if let Some(func) = call(w, "function_from_primitive", || Function::from_primitive(p.clone(), &res)) {
                    let (i, o) = (call_v(w, "function_apply", || func.input_dim()).unwrap_or(1).min(8), call_v(w, "function_apply", || func.output_dim()).unwrap_or(1).min(8));
                    for x in [0.0f32, 0.5, 1.0, -1.0, 1e9] { let inp = vec![x; i]; let mut out = vec![0f32; o]; call(w, "function_apply", || func.apply(&inp, &mut out)); }
                }
            }
            if matches!(p, Primitive::Array(_) | Primitive::Name(_)) { call(w, "colorspace_from_primitive", || ColorSpace::from_primitive(p.clone(), &res).map(|_| ())); }
            // every string of the object through the text-string and date readers (PDFDocEncoding / UTF-16BE / UTF-8 decisions, date fields)
            let mut strs: Vec<&PdfString> = Vec::new();
            collect_strings(&p, &mut strs, 0);
            for s in strs.into_iter().take(32) {
                call(w, "text_strings", || s.to_string().map(|t| t.len()));
                call_v(w, "text_strings", || s.to_string_lossy().len());
                call(w, "text_strings", || Date::from_primitive(Primitive::String(s.clone()), &res).map(|_| ()));
            }
        }
    }
    // recovery scan
    let lim = if deep { 4096 } else { 256 };
    call_v(w, "scan", || { let mut n = 0; for it in f.scan() { n += 1; if n >= lim { break; } if let Ok(ScanItem::Object(..)) | Ok(ScanItem::Trailer(_)) = it {} else { break; } } n });
}
