//! Helpers for opening documents with the real library in the four configurations.
use pdf::error::PdfError;
use pdf::object::ParseOptions;

#[derive(Clone, Copy, Debug, PartialEq, Eq)]
pub struct Cfg { pub cached: bool, pub tolerant: bool }
pub const CFGS: [Cfg; 4] = [
    Cfg { cached: false, tolerant: false }, Cfg { cached: true, tolerant: false },
    Cfg { cached: false, tolerant: true }, Cfg { cached: true, tolerant: true },
];
impl Cfg {
    pub fn name(&self) -> String { format!("{}+{}", if self.cached { "cached" } else { "uncached" }, if self.tolerant { "tolerant" } else { "strict" }) }
    pub fn opts(&self) -> ParseOptions { if self.tolerant { ParseOptions::tolerant() } else { ParseOptions::strict() } }
}

/// `with_file!(bytes, cfg, password, |file| expr)` — expr is evaluated with `file: Result<File<..>, PdfError>`
#[macro_export]
macro_rules! with_file {
    ($bytes:expr, $cfg:expr, $pw:expr, |$f:ident| $body:expr) => {{
        let cfg: $crate::doc::Cfg = $cfg;
        if cfg.cached {
            let $f = pdf::file::FileOptions::cached().parse_options(cfg.opts()).password($pw).load($bytes);
            $body
        } else {
            let $f = pdf::file::FileOptions::uncached().parse_options(cfg.opts()).password($pw).load($bytes);
            $body
        }
    }};
}

/// innermost cause of an error: peel Try / Shared / FromPrimitive wrappers
pub fn root_cause(e: &PdfError) -> &PdfError {
    match e {
        PdfError::Try { source, .. } => root_cause(source),
        PdfError::Shared { source } => root_cause(source),
        PdfError::FromPrimitive { source, .. } => root_cause(source),
        other => other,
    }
}
/// variant name of the root cause
pub fn root_kind(e: &PdfError) -> String {
    let d = format!("{:?}", root_cause(e));
    d.split(|c: char| !c.is_alphanumeric()).next().unwrap_or("").to_string()
}
/// all field names mentioned by FromPrimitive/MissingEntry along the chain
pub fn error_fields(e: &PdfError) -> Vec<String> {
    let mut v = Vec::new();
    let mut cur = e;
    loop {
        match cur {
            PdfError::Try { source, .. } => cur = source,
            PdfError::Shared { source } => cur = source,
            PdfError::FromPrimitive { field, source, .. } => { v.push(field.to_string()); cur = source; }
            PdfError::MissingEntry { field, .. } => { v.push(field.clone()); break; }
            _ => break,
        }
    }
    v
}
