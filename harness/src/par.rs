//! Tiny work-sharing helper: run `f(i)` for i in 0..n on all cores.
use std::sync::atomic::{AtomicU64, Ordering};
pub fn threads() -> usize {
    std::env::var("VERIF_THREADS").ok().and_then(|s| s.parse().ok())
        .unwrap_or_else(|| std::thread::available_parallelism().map(|n| n.get()).unwrap_or(4))
}
pub fn par_for(n: u64, f: impl Fn(u64) + Sync) {
    let next = AtomicU64::new(0);
    let t = threads().min(n.max(1) as usize);
    std::thread::scope(|s| {
        for _ in 0..t {
            s.spawn(|| loop {
                let i = next.fetch_add(1, Ordering::Relaxed);
                if i >= n { break; }
                f(i);
            });
        }
    });
}
/// chunked variant: f(lo, hi)
pub fn par_chunks(n: u64, chunk: u64, f: impl Fn(u64, u64) + Sync) {
    let chunks = (n + chunk - 1) / chunk;
    par_for(chunks, |c| f(c * chunk, ((c + 1) * chunk).min(n)));
}
