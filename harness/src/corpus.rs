//! The repository's own sample files + digests of library values that are independent of file offsets.
use pdf::object::Resolve;
use pdf::primitive::Primitive;

pub struct Sample { pub name: String, pub bytes: Vec<u8>, pub password: Vec<u8> }

pub fn valid_files() -> Vec<Sample> {
    let mut out = Vec::new();
    let mut names: Vec<_> = std::fs::read_dir("/repo/files").map(|d| d.filter_map(|e| e.ok()).map(|e| e.path()).collect::<Vec<_>>()).unwrap_or_default();
    names.sort();
    for p in names {
        if p.extension().map(|e| e == "pdf").unwrap_or(false) {
            if let Ok(bytes) = std::fs::read(&p) { out.push(Sample { name: p.file_name().unwrap().to_string_lossy().into(), bytes, password: Vec::new() }); }
        }
    }
    let mut names: Vec<_> = std::fs::read_dir("/repo/files/password_protected").map(|d| d.filter_map(|e| e.ok()).map(|e| e.path()).collect::<Vec<_>>()).unwrap_or_default();
    names.sort();
    for p in names {
        if let Ok(bytes) = std::fs::read(&p) { out.push(Sample { name: format!("password_protected/{}", p.file_name().unwrap().to_string_lossy()), bytes, password: b"userpassword".to_vec() }); }
    }
    out
}
pub fn invalid_files() -> Vec<Sample> {
    let mut out = Vec::new();
    let mut names: Vec<_> = std::fs::read_dir("/repo/files/invalid").map(|d| d.filter_map(|e| e.ok()).map(|e| e.path()).collect::<Vec<_>>()).unwrap_or_default();
    names.sort();
    for p in names { if let Ok(bytes) = std::fs::read(&p) { out.push(Sample { name: format!("invalid/{}", p.file_name().unwrap().to_string_lossy()), bytes, password: Vec::new() }); } }
    out
}

/// Offset-independent rendering of a primitive: streams as dictionary + hash of raw data.
pub fn digest(p: &Primitive, r: &impl Resolve) -> String {
    let mut s = String::new();
    dig(p, r, &mut s);
    s
}
fn dig(p: &Primitive, r: &impl Resolve, out: &mut String) {
    match p {
        Primitive::Null => out.push_str("null"),
        Primitive::Integer(i) => out.push_str(&format!("i{}", i)),
        Primitive::Number(x) => out.push_str(&format!("r{:?}", x)),
        Primitive::Boolean(b) => out.push_str(&format!("b{}", b)),
        Primitive::String(s) => { out.push_str("s<"); for b in s.as_bytes() { out.push_str(&format!("{:02x}", b)); } out.push('>'); }
        Primitive::Name(n) => { out.push('/'); out.push_str(n.as_str()); }
        Primitive::Reference(rf) => out.push_str(&format!("R{}.{}", rf.id, rf.gen)),
        Primitive::Array(a) => { out.push('['); for x in a { dig(x, r, out); out.push(' '); } out.push(']'); }
        Primitive::Dictionary(d) => dig_dict(d, r, out),
        Primitive::Stream(st) => {
            out.push_str("stream");
            dig_dict(&st.info, r, out);
            match st.raw_data(r) { Ok(d) => out.push_str(&format!("#{}:{:016x}", d.len(), crate::rng::fnv(&d))), Err(e) => out.push_str(&format!("#err:{}", crate::doc::root_kind(&e))) }
        }
    }
}
fn dig_dict(d: &pdf::primitive::Dictionary, r: &impl Resolve, out: &mut String) {
    let mut keys: Vec<&pdf::primitive::Name> = d.iter().map(|(k, _)| k).collect();
    keys.sort();
    out.push_str("<<");
    for k in keys { out.push('/'); out.push_str(k.as_str()); out.push(' '); dig(d.get(k.as_str()).unwrap(), r, out); out.push(' '); }
    out.push_str(">>");
}
