//! A "rich" well-formed document (as an object table) that contains every construct the walker visits,
//! plus structural mutation helpers on the object table (re-point references, replace numbers).
use crate::mkpdf::{self, arr, dict, ints, name, rf, st, stream, Obj, W};
use crate::tape::Src;

fn z(d: &[u8]) -> Vec<u8> { miniz_oxide::deflate::compress_to_vec_zlib(d, 6) }

pub const CMAP: &[u8] = b"/CIDInit /ProcSet findresource begin\n12 dict begin\nbegincmap\n/CIDSystemInfo << /Registry (Adobe) /Ordering (UCS) /Supplement 0 >> def\n/CMapName /Adobe-Identity-UCS def\n/CMapType 2 def\n1 begincodespacerange\n<0000> <FFFF>\nendcodespacerange\n2 beginbfchar\n<0001> <0041>\n<0002> <D83DDE00>\nendbfchar\n1 beginbfrange\n<0010> <0012> <0061>\nendbfrange\n1 beginbfrange\n<0020> <0021> [<0062> <00630064>]\nendbfrange\nendcmap\nCMapName currentdict /CMap defineresource pop\nend\nend\n";

/// The object table. Object 1 is the catalog.
pub fn objects() -> Vec<(u32, Obj)> {
    let content1 = b"BT /F1 12 Tf 10 20 Td (Hello) Tj /F2 9 Tf <00010002> Tj [(a) -20 (b)] TJ ET q 1 0 0 1 5 5 cm /GS1 gs /CS1 cs 1 sc /Im1 Do /Fm1 Do Q /P1 scn 0 0 10 10 re f BI /W 1 /H 1 /BPC 8 /CS /G ID \xff EI /Tag << /MCID 0 >> BDC EMC";
    let content2 = b"q 0.5 g 1 1 m 2 2 l 3 3 4 4 5 5 c h S Q";
    vec![
        (1, dict(vec![("Type", name("Catalog")), ("Pages", rf(2)), ("Names", rf(20)), ("PageLabels", rf(25)), ("Outlines", rf(30)), ("AcroForm", rf(35)), ("Metadata", rf(40)),
            ("Dests", dict(vec![("d1", arr(vec![rf(3), name("Fit")]))]))])),
        (2, dict(vec![("Type", name("Pages")), ("Kids", arr(vec![rf(3), rf(4)])), ("Count", Obj::Int(3)), ("MediaBox", ints(&[0, 0, 612, 792])), ("Resources", rf(5))])),
        (3, dict(vec![("Type", name("Page")), ("Parent", rf(2)), ("Contents", rf(6)), ("Annots", arr(vec![rf(45)])), ("CropBox", ints(&[10, 10, 600, 700])), ("Rotate", Obj::Int(90))])),
        (4, dict(vec![("Type", name("Pages")), ("Parent", rf(2)), ("Kids", arr(vec![rf(7), rf(8)])), ("Count", Obj::Int(2))])),
        (7, dict(vec![("Type", name("Page")), ("Parent", rf(4)), ("Contents", arr(vec![rf(6), rf(9)])), ("Resources", rf(10)), ("MediaBox", arr(vec![Obj::Real(0.0), Obj::Real(0.0), Obj::Real(200.5), Obj::Real(300.25)]))])),
        (8, dict(vec![("Type", name("Page")), ("Parent", rf(4))])),
        (5, dict(vec![
            ("Font", dict(vec![("F1", rf(11)), ("F2", rf(12))])),
            ("XObject", dict(vec![("Im1", rf(15)), ("Fm1", rf(16))])),
            ("ExtGState", dict(vec![("GS1", dict(vec![("Type", name("ExtGState")), ("LW", Obj::Int(2)), ("Font", arr(vec![rf(11), Obj::Int(12)])), ("CA", Obj::Real(0.5))]))])),
            ("ColorSpace", dict(vec![
                ("CS1", arr(vec![name("Indexed"), name("DeviceRGB"), Obj::Int(1), Obj::Str(vec![0, 0, 0, 255, 255, 255])])),
                ("CS2", arr(vec![name("Separation"), name("Spot"), name("DeviceCMYK"), rf(18)])),
                ("CS3", arr(vec![name("ICCBased"), rf(19)])),
                ("CS4", arr(vec![name("Separation"), name("Other"), name("DeviceGray"), rf(24)])),
                ("CS5", arr(vec![name("DeviceN"), arr(vec![name("A"), name("B")]), name("DeviceRGB"), rf(26)])),
            ])),
            ("Pattern", dict(vec![("P1", rf(17))])),
            ("Properties", dict(vec![("MC0", dict(vec![("K", Obj::Int(1))]))])),
        ])),
        (6, stream(vec![("Filter", name("FlateDecode"))], &z(content1))),
        (9, stream(vec![], content2)),
        (10, dict(vec![("Font", dict(vec![("F1", rf(11))])), ("XObject", dict(vec![("Im1", rf(15))]))])),
        (11, dict(vec![("Type", name("Font")), ("Subtype", name("TrueType")), ("BaseFont", name("ABCDEF+Test")), ("FirstChar", Obj::Int(32)), ("LastChar", Obj::Int(35)),
            ("Widths", ints(&[250, 300, 350, 400])), ("FontDescriptor", rf(13)), ("ToUnicode", rf(14)),
            ("Encoding", dict(vec![("Type", name("Encoding")), ("BaseEncoding", name("WinAnsiEncoding")), ("Differences", arr(vec![Obj::Int(65), name("A"), name("B"), Obj::Int(200), name("Euro")]))]))])),
        (12, dict(vec![("Type", name("Font")), ("Subtype", name("Type0")), ("BaseFont", name("Test-Identity-H")), ("Encoding", name("Identity-H")), ("DescendantFonts", arr(vec![rf(21)])), ("ToUnicode", rf(14))])),
        (21, dict(vec![("Type", name("Font")), ("Subtype", name("CIDFontType2")), ("BaseFont", name("Test")), ("CIDSystemInfo", dict(vec![("Registry", st("Adobe")), ("Ordering", st("Identity")), ("Supplement", Obj::Int(0))])),
            ("FontDescriptor", rf(13)), ("DW", Obj::Int(1000)), ("W", arr(vec![Obj::Int(1), arr(vec![Obj::Int(500), Obj::Real(600.5)]), Obj::Int(10), Obj::Int(20), Obj::Int(700)])), ("CIDToGIDMap", name("Identity"))])),
        (13, dict(vec![("Type", name("FontDescriptor")), ("FontName", name("ABCDEF+Test")), ("Flags", Obj::Int(32)), ("FontBBox", ints(&[0, -200, 1000, 800])), ("ItalicAngle", Obj::Int(0)), ("Ascent", Obj::Int(800)),
            ("Descent", Obj::Int(-200)), ("CapHeight", Obj::Int(700)), ("StemV", Obj::Int(80)), ("MissingWidth", Obj::Int(123)), ("FontFile2", rf(22))])),
        (22, stream(vec![("Length1", Obj::Int(16)), ("Filter", name("FlateDecode"))], &z(b"\0\x01\0\0\0\x01fake font"))),
        (14, stream(vec![("Filter", name("FlateDecode"))], &z(CMAP))),
        (15, stream(vec![("Type", name("XObject")), ("Subtype", name("Image")), ("Width", Obj::Int(2)), ("Height", Obj::Int(2)), ("BitsPerComponent", Obj::Int(8)), ("ColorSpace", name("DeviceRGB")),
            ("Filter", arr(vec![name("ASCIIHexDecode"), name("FlateDecode")])), ("DecodeParms", arr(vec![Obj::Null, dict(vec![("Predictor", Obj::Int(12)), ("Colors", Obj::Int(3)), ("Columns", Obj::Int(2))])])), ("SMask", rf(23))],
            &{ let raw = [2u8, 1, 2, 3, 4, 5, 6, 2, 0, 0, 0, 0, 0, 0]; let mut h: Vec<u8> = z(&raw).iter().flat_map(|b| format!("{:02X}", b).into_bytes()).collect(); h.push(b'>'); h })),
        (23, stream(vec![("Type", name("XObject")), ("Subtype", name("Image")), ("Width", Obj::Int(2)), ("Height", Obj::Int(2)), ("BitsPerComponent", Obj::Int(8)), ("ColorSpace", name("DeviceGray"))], &[0, 85, 170, 255])),
        (16, stream(vec![("Type", name("XObject")), ("Subtype", name("Form")), ("BBox", ints(&[0, 0, 10, 10])), ("Resources", dict(vec![("XObject", dict(vec![("Im1", rf(15))]))])), ("Matrix", ints(&[1, 0, 0, 1, 0, 0]))], b"q /Im1 Do Q")),
        (17, stream(vec![("Type", name("Pattern")), ("PatternType", Obj::Int(1)), ("PaintType", Obj::Int(1)), ("TilingType", Obj::Int(1)), ("BBox", ints(&[0, 0, 5, 5])), ("XStep", Obj::Int(5)), ("YStep", Obj::Int(5)), ("Resources", rf(10))], b"0 0 5 5 re f")),
        (18, dict(vec![("FunctionType", Obj::Int(2)), ("Domain", ints(&[0, 1])), ("C0", ints(&[0, 0, 0, 0])), ("C1", ints(&[1, 1, 1, 1])), ("N", Obj::Int(1))])),
        (19, stream(vec![("N", Obj::Int(3)), ("Alternate", name("DeviceRGB")), ("Filter", name("FlateDecode"))], &z(&[0u8; 64]))),
        (24, stream(vec![("FunctionType", Obj::Int(4)), ("Domain", ints(&[0, 1])), ("Range", ints(&[0, 1]))], b"{ dup mul 2 exch sub 1 index add pop }")),
        (26, stream(vec![("FunctionType", Obj::Int(0)), ("Domain", ints(&[0, 1, 0, 1])), ("Range", ints(&[0, 1, 0, 1, 0, 1])), ("Size", ints(&[2, 2])), ("BitsPerSample", Obj::Int(8))], &[0, 10, 20, 30, 40, 50, 60, 70, 80, 90, 100, 110])),
        (20, dict(vec![("Dests", rf(27)), ("EmbeddedFiles", rf(28)), ("JavaScript", dict(vec![("Names", arr(vec![st("js"), dict(vec![("S", name("JavaScript")), ("JS", st("1"))])]))]))])),
        (27, dict(vec![("Kids", arr(vec![rf(29)]))])),
        (29, dict(vec![("Limits", arr(vec![st("a"), st("b")])), ("Names", arr(vec![st("a"), arr(vec![rf(3), name("Fit")]), st("b"), arr(vec![rf(7), name("XYZ"), Obj::Int(0), Obj::Int(0), Obj::Int(0)])]))])),
        (28, dict(vec![("Names", arr(vec![st("f.txt"), rf(31)]))])),
        (31, dict(vec![("Type", name("Filespec")), ("F", st("f.txt")), ("EF", dict(vec![("F", rf(32))]))])),
        (32, stream(vec![("Type", name("EmbeddedFile")), ("Params", dict(vec![("Size", Obj::Int(5))]))], b"hello")),
        (25, dict(vec![("Kids", arr(vec![rf(38)]))])),
        (38, dict(vec![("Limits", ints(&[0, 2])), ("Nums", arr(vec![Obj::Int(0), dict(vec![("S", name("D"))]), Obj::Int(2), dict(vec![("S", name("r")), ("P", st("x")), ("St", Obj::Int(3))])]))])),
        (30, dict(vec![("Type", name("Outlines")), ("First", rf(33)), ("Last", rf(34)), ("Count", Obj::Int(2))])),
        (33, dict(vec![("Title", st("one")), ("Parent", rf(30)), ("Next", rf(34)), ("Dest", arr(vec![rf(3), name("Fit")]))])),
        (34, dict(vec![("Title", st("two")), ("Parent", rf(30)), ("Prev", rf(33)), ("A", dict(vec![("S", name("GoTo")), ("D", arr(vec![rf(7), name("FitH"), Obj::Int(10)]))]))])),
        (35, dict(vec![("Fields", arr(vec![rf(36)])), ("DR", rf(10)), ("DA", st("/F1 0 Tf")), ("NeedAppearances", Obj::Bool(true))])),
        (36, dict(vec![("FT", name("Tx")), ("T", st("field")), ("Kids", arr(vec![rf(37)])), ("V", st("v")), ("Ff", Obj::Int(0))])),
        (37, dict(vec![("Type", name("Annot")), ("Subtype", name("Widget")), ("Parent", rf(36)), ("Rect", ints(&[0, 0, 10, 10])), ("T", st("kid"))])),
        (40, stream(vec![("Type", name("Metadata")), ("Subtype", name("XML"))], b"<?xpacket begin='' id='W5M0MpCehiHzreSzNTczkc9d'?><x:xmpmeta xmlns:x='adobe:ns:meta/'/><?xpacket end='w'?>")),
        (45, dict(vec![("Type", name("Annot")), ("Subtype", name("Link")), ("Rect", ints(&[0, 0, 50, 50])), ("AP", dict(vec![("N", rf(46))])), ("Border", ints(&[0, 0, 1])), ("F", Obj::Int(4))])),
        (46, stream(vec![("Type", name("XObject")), ("Subtype", name("Form")), ("BBox", ints(&[0, 0, 50, 50]))], b"0 0 50 50 re S")),
    ]
}

#[derive(Clone, Copy, Debug, PartialEq)]
pub enum Layout { Classic, XrefStream, Incremental }

/// Write the object table. `XrefStream` puts every non-stream object except the catalog's page tree root into an object stream.
pub fn write(objs: &[(u32, Obj)], layout: Layout, prefix: &[u8]) -> Vec<u8> {
    write_with_info(objs, layout, prefix, dict(vec![("Title", st("rich")), ("CreationDate", st("D:20200102030405+01'00'"))]))
}
pub fn write_with_info(objs: &[(u32, Obj)], layout: Layout, prefix: &[u8], info: Obj) -> Vec<u8> {
    let max = objs.iter().map(|(n, _)| *n).max().unwrap_or(1);
    let mut w = W::new(prefix, "1.7");
    w.free(0, 0, 65535);
    match layout {
        Layout::Classic | Layout::Incremental => {
            let half = objs.len() / 2;
            for (i, (n, o)) in objs.iter().enumerate() {
                if layout == Layout::Incremental && i == half {
                    w.xref_table(vec![(b"Root".to_vec(), rf(1)), (b"Info".to_vec(), rf(max + 1))], max + 2, &[]);
                }
                w.obj(*n, 0, o);
            }
            w.obj(max + 1, 0, &info);
            w.xref_table(vec![(b"Root".to_vec(), rf(1)), (b"Info".to_vec(), rf(max + 1)), (b"ID".to_vec(), arr(vec![st("id-a"), st("id-b")]))], max + 2, &[]);
        }
        Layout::XrefStream => {
            let mut members = Vec::new();
            for (n, o) in objs { if matches!(o, Obj::Stream(..)) || *n == 1 { w.obj(*n, 0, o); } else { members.push((*n, o.clone())); } }
            members.push((max + 1, info));
            w.objstm(max + 2, &members, b"\n", 0, &mkpdf::flate_filter);
            w.xref_stream(max + 3, vec![(b"Root".to_vec(), rf(1)), (b"Info".to_vec(), rf(max + 1)), (b"ID".to_vec(), arr(vec![st("id-a"), st("id-b")]))], max + 4, &[], &mkpdf::flate_filter);
        }
    }
    w.buf
}

// ------------------------------------------------------------------ structural mutation

/// Path to a node inside one object: sequence of child indices (dict value i / array element i).
pub type Path = Vec<usize>;

pub fn collect(o: &Obj, path: &mut Path, refs: &mut Vec<Path>, nums: &mut Vec<Path>, names: &mut Vec<Path>) {
    match o {
        Obj::Ref(..) => refs.push(path.clone()),
        Obj::Int(_) | Obj::Real(_) => nums.push(path.clone()),
        Obj::Name(_) => names.push(path.clone()),
        Obj::Arr(a) => for (i, x) in a.iter().enumerate() { path.push(i); collect(x, path, refs, nums, names); path.pop(); },
        Obj::Dict(d) | Obj::Stream(d, _) => for (i, (_, x)) in d.iter().enumerate() { path.push(i); collect(x, path, refs, nums, names); path.pop(); },
        _ => {}
    }
}
/// paths of all array-valued nodes
pub fn collect_arrays(o: &Obj, path: &mut Path, out: &mut Vec<Path>) {
    match o {
        Obj::Arr(a) => { out.push(path.clone()); for (i, x) in a.iter().enumerate() { path.push(i); collect_arrays(x, path, out); path.pop(); } }
        Obj::Dict(d) | Obj::Stream(d, _) => for (i, (_, x)) in d.iter().enumerate() { path.push(i); collect_arrays(x, path, out); path.pop(); },
        _ => {}
    }
}
pub const ARRAY_EDITS: [&str; 5] = ["empty", "first-only", "without-last", "doubled", "one-more"];
/// an array of unexpected length: /Limits with 0 or 1 entries, a box with 3 numbers, a matrix with 5 or 7, /Kids twice, ...
pub fn edit_array(o: &mut Obj, k: usize) {
    if let Obj::Arr(a) = o {
        match k { 0 => a.clear(), 1 => a.truncate(1), 2 => { a.pop(); }, 3 => { let c = a.clone(); a.extend(c); }, _ => a.push(Obj::Int(0)) }
    }
}
pub fn node_mut<'a>(o: &'a mut Obj, path: &[usize]) -> &'a mut Obj {
    if path.is_empty() { return o; }
    match o {
        Obj::Arr(a) => node_mut(&mut a[path[0]], &path[1..]),
        Obj::Dict(d) | Obj::Stream(d, _) => node_mut(&mut d[path[0]].1, &path[1..]),
        _ => o,
    }
}
/// dictionary key names along a path (for labels): e.g. "Kids[]" or "W[][]"
pub fn path_label(o: &Obj, path: &[usize]) -> String {
    let mut cur = o;
    let mut out = String::new();
    for &i in path {
        match cur {
            Obj::Arr(a) => { out.push_str("[]"); cur = &a[i]; }
            Obj::Dict(d) | Obj::Stream(d, _) => { if !out.is_empty() { out.push('.'); } out.push_str(&String::from_utf8_lossy(&d[i].0)); cur = &d[i].1; }
            _ => break,
        }
    }
    out
}

pub const BOUNDARY: [i64; 12] = [-1, 0, 1, 2, 255, 256, 65535, 65536, 2147483647, -2147483648, 4294967295, 18446744073709551615u64 as i64];
pub fn boundary_obj(k: usize) -> Obj {
    match k % 14 {
        11 => Obj::Raw(b"18446744073709551615".to_vec()),
        12 => Obj::Real(-0.5),
        13 => Obj::Raw(b"99999999999999999999999999".to_vec()),
        i => Obj::Int(BOUNDARY[i]),
    }
}

/// One structural mutation drawn from the tape; returns a label like "obj21.W[][]:num=-1" / "obj4.Kids[]:ref->2".
pub fn mutate(objs: &mut Vec<(u32, Obj)>, s: &mut Src) -> String {
    let oi = s.draw(objs.len() as u32) as usize;
    let (mut refs, mut nums, mut names) = (Vec::new(), Vec::new(), Vec::new());
    collect(&objs[oi].1, &mut Vec::new(), &mut refs, &mut nums, &mut names);
    let nr = objs[oi].0;
    let all: Vec<u32> = objs.iter().map(|(n, _)| *n).collect();
    let kind = s.draw(10);
    if kind < 4 && !refs.is_empty() {
        let p = refs[s.draw(refs.len() as u32) as usize].clone();
        let target = match s.draw(8) { 0 => nr, 1 => 0, 2 => 9999, _ => all[s.draw(all.len() as u32) as usize] };
        let lab = format!("obj{}.{}:ref->{}", nr, path_label(&objs[oi].1, &p), if target == nr { "self".to_string() } else { target.to_string() });
        *node_mut(&mut objs[oi].1, &p) = Obj::Ref(target, 0);
        lab
    } else if kind < 8 && !nums.is_empty() {
        let p = nums[s.draw(nums.len() as u32) as usize].clone();
        let k = s.draw(14) as usize;
        let b = boundary_obj(k);
        let lab = format!("obj{}.{}:num={}", nr, path_label(&objs[oi].1, &p), String::from_utf8_lossy(&mkpdf::obj_bytes(&b)));
        *node_mut(&mut objs[oi].1, &p) = b;
        lab
    } else if kind == 8 && !names.is_empty() {
        let p = names[s.draw(names.len() as u32) as usize].clone();
        let pool = ["Pages", "Page", "Font", "Type0", "Type1", "Type3", "TrueType", "CIDFontType0", "Image", "Form", "DCTDecode", "LZWDecode", "FlateDecode", "RunLengthDecode", "CCITTFaxDecode", "JBIG2Decode", "JPXDecode", "Crypt",
            "Indexed", "ICCBased", "DeviceN", "Separation", "Pattern", "Lab", "CalRGB", "Identity-H", "Identity", "MacRomanEncoding", "XYZ", "FitR", "GoTo", "ObjStm", "XRef", ""];
        let nn = pool[s.draw(pool.len() as u32) as usize];
        let lab = format!("obj{}.{}:name=/{}", nr, path_label(&objs[oi].1, &p), nn);
        *node_mut(&mut objs[oi].1, &p) = name(nn);
        lab
    } else {
        // drop or duplicate a dictionary entry, or swap the object for another one
        match s.draw(4) {
            3 => {
                let mut arrs = Vec::new();
                collect_arrays(&objs[oi].1, &mut Vec::new(), &mut arrs);
                if arrs.is_empty() { return format!("obj{}:noop", nr); }
                let p = arrs[s.draw(arrs.len() as u32) as usize].clone();
                let k = s.draw(5) as usize;
                let lab = format!("obj{}.{}:array-{}", nr, path_label(&objs[oi].1, &p), ARRAY_EDITS[k]);
                edit_array(node_mut(&mut objs[oi].1, &p), k);
                lab
            }
            0 => { if let Obj::Dict(d) | Obj::Stream(d, _) = &mut objs[oi].1 { if !d.is_empty() { let i = s.draw(d.len() as u32) as usize; let k = String::from_utf8_lossy(&d[i].0).to_string(); d.remove(i); return format!("obj{}:drop /{}", nr, k); } } format!("obj{}:noop", nr) }
            1 => { let oj = s.draw(objs.len() as u32) as usize; let o = objs[oj].1.clone(); let src_nr = objs[oj].0; objs[oi].1 = o; format!("obj{}:=obj{}", nr, src_nr) }
            _ => { if let Obj::Stream(_, data) = &mut objs[oi].1 { if !data.is_empty() { let k = s.draw(data.len() as u32) as usize; data[k] ^= 1 << s.draw(8); return format!("obj{}:streambyte", nr); } } format!("obj{}:noop", nr) }
        }
    }
}
