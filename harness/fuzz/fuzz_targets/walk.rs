#![no_main]
//! libFuzzer target for C01: open the bytes and walk the whole read interface. A panic caught by the walker's
//! monitor (or any crash / ASan report / timeout / OOM) terminates the run with an artifact.
use libfuzzer_sys::fuzz_target;
use pdfmon::doc::CFGS;
use pdfmon::walk::{walk, WalkStats};

fuzz_target!(|data: &[u8]| {
    pdfmon::panicmon::install();
    let cfg = CFGS[data.len() % 4];
    let mut w = WalkStats::new();
    w.budget = 4000;
    let loaded = pdfmon::panicmon::guard(|| pdfmon::with_file!(data.to_vec(), cfg, b"", |f| if let Ok(f) = f { walk(&f, &mut w, false); }));
    if let Err(p) = loaded { eprintln!("PANIC-SIG: {}", p.signature()); std::process::abort(); }
    if let Some((e, p)) = w.panics.first() { eprintln!("PANIC-SIG: {} (in {})", p.signature(), e); std::process::abort(); }
});
