use pdfmon::mkpdf::*;
use pdfmon::with_file;
use pdfmon::doc::*;
fn main(){
    let bytes = simple_doc(&skeleton(3), 1, vec![]);
    println!("{}", String::from_utf8_lossy(&bytes));
    for cfg in CFGS {
        let n = with_file!(bytes.clone(), cfg, b"", |f| f.map(|f| (f.num_pages(), f.get_page(2).map(|p| p.media_box().map(|r| r.right)))));
        println!("{} -> {:?}", cfg.name(), n);
    }
    // xref stream + objstm
    let mut w = W::new(b"junk junk\n", "1.5");
    w.free(0,0,65535);
    let sk = skeleton(2);
    w.obj(1,0,&sk[0].1);
    w.objstm(5, &[(2, sk[1].1.clone()), (3, sk[2].1.clone()), (4, sk[3].1.clone())], b"\n", 0, &flate_filter);
    w.xref_stream(6, vec![(b"Root".to_vec(), rf(1))], 7, &[], &flate_filter);
    let n = with_file!(w.buf.clone(), CFGS[0], b"", |f| f.map(|f| (f.num_pages(), f.get_page(1).map(|p| p.media_box().map(|r| r.right)))));
    println!("xrefstream -> {:?}", n);
}
