use pdf::file::{FileOptions, ScanItem};
fn main(){
    for name in ["example.pdf","offset.pdf","xelatex.pdf","libreoffice.pdf","encrypted_aes_128.pdf","jpeg.pdf"] {
        let bytes = std::fs::read(format!("/repo/files/{}",name)).unwrap();
        let f = FileOptions::uncached().load(bytes).unwrap();
        let mut n_ok=0; let mut n_tr=0; let mut err=None;
        for it in f.scan() { match it { Ok(ScanItem::Object(..)) => n_ok+=1, Ok(ScanItem::Trailer(_)) => n_tr+=1, Err(e) => { err=Some(format!("{}",e).chars().take(80).collect::<String>()); break; } } }
        println!("{}: objects={} trailers={} err={:?}", name, n_ok, n_tr, err);
    }
}
