use pdfmon::refimpl::codec::*;
use pdf::enc::*;
fn main(){
    let data=b"hello hello hello hello".to_vec();
    for early in [0u32,1]{
        let enc=lzw_encode_with(&data,early,4094,true,&[]);
        let p=LZWFlateParams{early_change:early as i32,..Default::default()};
        println!("early={} -> {:?}",early,decode(&enc,&StreamFilter::LZWDecode(p)).map(|v|String::from_utf8_lossy(&v).to_string()));
    }
}
