fn main(){
    let sp = pdfmon::props::c14::specials();
    for i in [141usize,142,143] { println!("{} {}", i, sp[i].0); }
    std::fs::write("/tmp/special142.pdf", &sp[142].1).unwrap();
    println!("{}", String::from_utf8_lossy(&sp[142].1));
}
