use pdf::enc::{fax_decode, CCITTFaxDecodeParams};
fn main() {
    for (cols, rows, data) in [(0u32, 0u32, vec![]), (0, 0, vec![0x00, 0x10, 0x01]), (8, 0, vec![]), (8, 0, vec![0x00, 0x10, 0x01]), (8, 1, vec![0xff; 4]), (1, 0, vec![0x80]), (65535, 0, vec![0x00, 0x10, 0x01]), (70000, 0, vec![0x00,0x10,0x01]), (8, 0, vec![0b1000_0000; 3])] {
        let p = CCITTFaxDecodeParams { k: -1, end_of_line: false, encoded_byte_align: false, columns: cols, rows, end_of_block: true, black_is_1: false, damaged_rows_before_error: 0 };
        let r = std::panic::catch_unwind(|| fax_decode(&data, &p));
        println!("cols={} rows={} data={:?} -> {:?}", cols, rows, data, r.map(|r| r.map(|v| v.len()).map_err(|e| e.to_string())));
    }
}
