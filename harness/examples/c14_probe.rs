use pdf::file::FileOptions;
use pdf::object::*;
fn main() {
    let want = std::env::args().nth(1).unwrap();
    for (label, bytes) in pdfmon::props::c14::specials() {
        if !label.contains(&want) { continue; }
        let r = std::panic::catch_unwind(|| {
            let f = FileOptions::uncached().load(bytes.clone()).map_err(|e| e.to_string())?;
            let res = f.resolver();
            let s = res.get::<Stream<()>>(Ref::new(PlainRef { id: 4, gen: 0 })).map_err(|e| format!("get: {}", e))?;
            let d = (**s.data()).data(&res).map_err(|e| format!("data: {}", e))?;
            Ok::<usize, String>(d.len())
        });
        println!("{} -> {:?}", label, r.map_err(|_| "PANIC"));
    }
}
