//! Confirms on real threads (no scheduler inference) that two threads which each load one member of an eager two-object
//! cycle through a cached document wait for each other for ever.
use pdf::file::FileOptions;
use pdf::object::*;
use std::sync::{Arc, Barrier, atomic::{AtomicUsize, Ordering}};
static HITS: AtomicUsize = AtomicUsize::new(0);
static BAR: std::sync::OnceLock<Barrier> = std::sync::OnceLock::new();
fn main() {
    let bytes = pdfmon::props::c13::small_doc();
    let file = Arc::new(FileOptions::cached().load(bytes).expect("load"));
    // both threads are inside the computation of their own key before either asks for the other's
    fn hook(site: u32, id: u64) { if site == pdf::verif::SITE_GET_IN_COMPUTE && (id == 11 || id == 12) && HITS.fetch_add(1, Ordering::SeqCst) < 2 { BAR.get().unwrap().wait(); } }
    BAR.set(Barrier::new(2)).ok();
    pdf::verif::set_yield(hook);
    let done = Arc::new(AtomicUsize::new(0));
    for id in [11u64, 12] {
        let (f, d) = (file.clone(), done.clone());
        std::thread::spawn(move || { let r = f.resolver().get::<PagesNode>(Ref::new(PlainRef { id, gen: 0 })); println!("thread {} returned: {}", id, r.map(|_| "value".to_string()).unwrap_or_else(|e| format!("error {}", pdfmon::doc::root_kind(&e)))); d.fetch_add(1, Ordering::SeqCst); });
    }
    for _ in 0..50 { std::thread::sleep(std::time::Duration::from_millis(100)); if done.load(Ordering::SeqCst) == 2 { println!("both returned"); return; } }
    println!("DEADLOCK: {} of 2 threads returned within 5 s", done.load(Ordering::SeqCst));
    std::process::exit(1);
}
