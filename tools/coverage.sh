#!/bin/bash
# coverage.sh [tier]: line/function coverage of /repo/pdf/src reached by all checks of one tier (default quick).
# Not a check: an instrument for finding library code the workloads never drive. Output: /verif/coverage/summary.txt
set -e
tier=${1:-quick}
H=/verif/harness
BIN=$(rustc +nightly --print sysroot)/lib/rustlib/x86_64-unknown-linux-gnu/bin
cd $H
LLVM_PROFILE_FILE=/verif/harness/target-cov/build-%p.profraw RUSTFLAGS="-Cinstrument-coverage" CARGO_NET_OFFLINE=true cargo +nightly build --release --offline --target-dir target-cov 2>&1 | tail -1
P=/verif/harness/target-cov/prof; rm -rf $P; mkdir -p $P /verif/coverage
R=/verif/harness/target-cov/root; rm -rf $R; mkdir -p $R/harness/target; cp /verif/KNOWN_FINDINGS.txt $R/
for p in C01 C02 C03 C04 C05 C06 C07 C08 C09 C10 C11 C12 C13 C14 C15 C16 C17 C18 C19 C20; do
  LLVM_PROFILE_FILE="$P/$p-%p-%8m.profraw" VERIF_ROOT=$R VERIF_BUDGET_SCALE=${VERIF_BUDGET_SCALE:-0.3} ./target-cov/release/pdfmon $p $tier 2>&1 | grep -E "^$p |^VIOL|INCONCL" || true
done
$BIN/llvm-profdata merge -sparse $P/*.profraw -o $P/all.profdata
$BIN/llvm-cov report ./target-cov/release/pdfmon -instr-profile=$P/all.profdata --ignore-filename-regex='(registry|rustc|harness)' 2>/dev/null | tee /verif/coverage/summary.txt | tail -45
$BIN/llvm-cov show ./target-cov/release/pdfmon -instr-profile=$P/all.profdata --ignore-filename-regex='(registry|rustc|harness)' --show-line-counts-or-regions=false 2>/dev/null > /verif/coverage/lines.txt || true
rm -f $P/*.profraw
