#!/usr/bin/env python3
"""Fill the generated parts of DESIGN.md (defect lists, seeded table) from KNOWN_FINDINGS.txt and seeded/*/meta.json."""
import json,glob,re,subprocess,os
os.chdir('/verif')
t=open('tools/design_template.md').read()
sec5=open('tools/design_sec5_round0.md').read()
rows=[]
for f in sorted(glob.glob('seeded/*/meta.json')):
    m=json.load(open(f)); res=m['checks_run']
    first = "**not caught by this property's check**, caught by another" if res.startswith("not caught") else ("caught" if "missed at first" not in res else "**missed at first**, caught after strengthening")
    sig=re.search(r'VIOLATION ([^ ]+)',res)
    rows.append(f"| {m['id']} | {m['needs_to_manifest']} | {first}: `{sig.group(1) if sig else ''}` |")
seed_table="| seed | needs, in order to manifest | result of `./check <property> quick` on the changed tree |\n|---|---|---|\n"+"\n".join(rows)
kf=open('KNOWN_FINDINGS.txt').read().split('\n')
opens=[l for l in kf if l.startswith('open:')]
open_list="\n".join("* `"+re.search(r'sig=(.*?) ::',l).group(1)+"` — "+l.split(' :: ',1)[1].strip() for l in opens)
fixed=[l for l in kf if l.startswith('fixed:')]
byprop={}
for l in fixed:
    p=re.search(r'property=(C\d+)',l).group(1); parts=l.split(' ',3); byprop.setdefault(p,[]).append(parts[3].strip() if len(parts)>3 else l)
fixed_list="\n".join(f"* **{p}** ({len(v)}): "+"; ".join(re.sub(r'\s*\(C\d+\|.*?\)\s*$','',x)[:170] for x in v) for p,v in sorted(byprop.items()))
nmiss=sum(1 for r in rows if 'missed at first' in r or 'not caught by' in r)
t=t.replace('@@NSEEDS@@',str(len(rows))).replace('@@NCAUGHT@@',str(len(rows)-nmiss)).replace('@@NMISSED@@',str(nmiss))
t=t.replace('@@NFIXED@@',str(len(fixed))).replace('@@NOPEN@@',str(len(opens))).replace('@@FIXED_LIST@@',fixed_list).replace('@@OPEN_LIST@@',open_list).replace('@@SEED_TABLE@@',seed_table).replace('@@SEC5@@',sec5)
open('DESIGN.md','w').write(t)
print(len(t.splitlines()),'lines')
